----------------------------- MODULE GateTrace -----------------------------
(***************************************************************************)
(* Verdict run for C09 over behaviours of the REAL open-game manager       *)
(* (vh gate).  The property layer is the ABSTRACT GATE of DESIGN.md 3.2:   *)
(* per gate, the current set-up (game count, participant ids, time it      *)
(* returned), the participants that signalled since it returned, and the   *)
(* number of callbacks seen for it.  A callback is legal iff it is the     *)
(* first for the current set-up, reports that set-up's game count and      *)
(* participants, all ready, and either every participant has signalled     *)
(* since the set-up returned or the timeout has elapsed.                   *)
(* Lines: [tr, n, ev, t (ms), gate, gc, ids, id, res, parts, sgc, mode].   *)
(***************************************************************************)
EXTENDS Integers, Sequences, FiniteSets, TLC, Json, IOUtils
VARIABLES l, g
Trace == ndJsonDeserialize(IOEnv.TRACE)
RangeOf(s) == {s[i] : i \in 1..Len(s)}
PartIds(parts) == {parts[i][1] : i \in 1..Len(parts)}
AllReady(parts) == \A i \in 1..Len(parts) : parts[i][3]
NoneReady(parts) == \A i \in 1..Len(parts) : ~parts[i][3]
ReadyIds(parts) == {parts[i][1] : i \in {j \in 1..Len(parts) : parts[j][3]}}
Tol == 40
NoSetup == [gc |-> -1, parts |-> {}, t |-> 0, sig |-> {}, fires |-> 0, busy |-> FALSE, super |-> FALSE,
            rdone |-> FALSE,   \* (gate B) this set-up was taken over from a state saved when every participant had signalled
            rsig |-> {}]       \* (gate B) the participants that signalled again at the rebuilt gate
(* per gate: the set-ups seen so far (keyed by their sequence number in the trace; several may share a game count) and which one is current *)
NoGate == [cur |-> -1, recs |-> <<>>, gcs |-> {}, firedGcs |-> <<>>, lastAct |-> -100000]
G0 == [tr |-> -1, A |-> NoGate, B |-> NoGate, hasB |-> FALSE]
Gt(gg, name) == IF name = "A" THEN gg.A ELSE gg.B
Put(gg, name, c) == IF name = "A" THEN [gg EXCEPT !.A = c] ELSE [gg EXCEPT !.B = c, !.hasB = TRUE]
Rec(gt, gc) == IF gc \in gt.gcs THEN gt.recs[gc] ELSE NoSetup
SetRec(gt, gc, r) == [gt EXCEPT !.recs = [x \in gt.gcs \cup {gc} |-> IF x = gc THEN r ELSE gt.recs[x]], !.gcs = @ \cup {gc}]
CurRec(gt) == Rec(gt, gt.cur)

Upd(gg, k) ==
  LET t == Trace[k]
      g0 == IF t.tr # gg.tr THEN [G0 EXCEPT !.tr = t.tr] ELSE gg
      gt == Gt(g0, t.gate)
  IN
  CASE t.ev = "setupcall" ->   \* the previous set-up is superseded from here on; was the ready group still busy with it?
         Put(g0, t.gate, [(IF gt.cur \in gt.gcs THEN SetRec(gt, gt.cur, [CurRec(gt) EXCEPT !.super = TRUE]) ELSE gt)
                          EXCEPT !.lastAct = t.t])
    [] t.ev = "setup" ->
         Put(g0, t.gate, [SetRec(gt, t.seq, [NoSetup EXCEPT !.gc = t.gc, !.parts = RangeOf(t.ids), !.t = t.t,
                                                           !.busy = (t.t - gt.lastAct < 1000) \/ CurRec(gt).busy])
                          EXCEPT !.cur = t.seq, !.lastAct = t.t])
    [] t.ev = "readycall" ->
         Put(g0, t.gate, [(IF t.id \in CurRec(gt).parts /\ ~CurRec(gt).super
                           THEN SetRec(gt, gt.cur, [CurRec(gt) EXCEPT !.sig = @ \cup {t.id}, !.rsig = @ \cup {t.id}]) ELSE gt)
                          EXCEPT !.lastAct = t.t])
    [] t.ev = "fire" ->
         Put(g0, t.gate, [(IF t.seq \in gt.gcs THEN SetRec(gt, t.seq, [Rec(gt, t.seq) EXCEPT !.fires = @ + 1]) ELSE gt)
                          EXCEPT !.firedGcs = Append(@, t.seq), !.lastAct = t.t])
    [] t.ev = "restore" ->
         Put(g0, "B", LET a == g0.A  r == CurRec(a) IN
                      [NoGate EXCEPT !.cur = a.cur, !.gcs = {a.cur}, !.recs = [x \in {a.cur} |-> [r EXCEPT !.t = t.t, !.sig = ReadyIds(t.parts), !.rsig = {},
                                                                                             !.rdone = (PartIds(t.parts) # {} /\ AllReady(t.parts))]]])
    [] OTHER -> g0

Clause(name, ok, tag, k) == ok \/ PrintT(<<"VIOL", name, k, tag>>)

(* known finding (open unless fixed): a set-up issued while the ready group is still busy with the signals / completion
   of the previous one (less than a millisecond after the last call or callback); timestamps are microseconds *)
BusyTag(r) == IF r.busy THEN "KF-C09-stale-signal" ELSE ""
(* known finding (open): a gate rebuilt from a state saved when every participant of the set-up had signalled (the set-up had
   fired, or was about to) fires that set-up when one of them signals again -- the saved state does not say whether the
   callback has run, and the rebuilt ready group has not completed.  Signature: rebuilt gate, set-up taken over all-ready,
   a participant has signalled again since.  (A rebuilt gate that fires WITHOUT such a signal is not this finding.)          *)
RestoreTag(r, other) == IF r.rdone /\ r.rsig # {} THEN "KF-C09-restore-after-fire" ELSE other

CheckLine(k, gg) ==
  LET t == Trace[k]
      g0 == IF t.tr # gg.tr THEN [G0 EXCEPT !.tr = t.tr] ELSE gg
      gt == Gt(g0, t.gate)
      c == CurRec(gt)
  IN
  /\ t.ev = "setup" =>
       Clause("C09_setupState", t.sgc = t.gc /\ PartIds(t.parts) = RangeOf(t.ids) /\ NoneReady(t.parts),
              IF t.t - gt.lastAct < 1000 \/ c.busy THEN "KF-C09-stale-signal" ELSE "", k)
  /\ t.ev = "ready" =>
       /\ Clause("C09_unknownRejected", (t.id \in c.parts) <=> (t.res = "ok"), "", k)
       /\ Clause("C09_unknownError", (t.id \notin c.parts) => t.res = "ErrParticipantNotFound", "", k)
  /\ t.ev = "fire" =>
       LET r == Rec(gt, t.seq) IN        \* (the set-up a fire belongs to is named by the participants' indexes, see vh gate)
       /\ Clause("C09_fireKnownSetup", t.seq \in gt.gcs, BusyTag(c), k)
       /\ t.seq \in gt.gcs =>
            /\ Clause("C09_fireOnce", r.fires = 0, RestoreTag(r, BusyTag(c)), k)
            /\ Clause("C09_fireReportsGc", t.gc = r.gc, BusyTag(c), k)
            /\ Clause("C09_fireReportsSetup", PartIds(t.parts) = r.parts /\ AllReady(t.parts), BusyTag(c), k)
            /\ Clause("C09_fireLegal", r.parts \subseteq r.sig \/ (~r.super /\ t.t - r.t >= t.toms * 1000 - Tol * 1000), BusyTag(c), k)
  /\ Clause("C09_callsReturn", t.ev # "hang", IF t.mode = "racy" THEN "KF-C09-stale-signal" ELSE "", k)
  /\ t.ev = "end" =>
       /\ Clause("C09_firedByQuiescence", c.parts # {} => c.fires = 1, RestoreTag(c, BusyTag(c)), k)
       /\ (t.gate = "B" /\ g0.hasB) =>
            Clause("C09_restoreAgrees", CurRec(g0.B).fires = CurRec(g0.A).fires, RestoreTag(CurRec(g0.B), ""), k)

Init == l = 1 /\ g = G0
Next == l <= Len(Trace) /\ l' = l + 1 /\ g' = Upd(g, l)
Spec == Init /\ [][Next]_<<l, g>>
Verdict == l > Len(Trace) \/ CheckLine(l, g)
Done == TLCGet("stats").diameter = Len(Trace) + 1 \/ PrintT(<<"INCOMPLETE", TLCGet("stats").diameter, Len(Trace)>>)
=============================================================================
