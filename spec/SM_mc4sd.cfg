SPECIFICATION Spec
CONSTANTS
 None = None
 N = 4
 Players = {p1, p2, p3}
 RuleC = "short_deck"
 MaxBatch = 2
 WithFindings = TRUE
INVARIANTS TypeOK Unique Wait3
PROPERTIES A_bbNext A_bbDealtIn A_atLeastTwo A_ringSB A_ringDealer A_ringDistinct A_headsUp A_refusedNothing A_refusedOnlyFew A_shortDeck A_buttonsStay A_drawnOnce A_smUnique A_smErrUnchanged A_smMembers A_newcomerFlag A_continuity A_rejoinTerms A_waitsUntilRot
SYMMETRY Sym
VIEW V
CHECK_DEADLOCK FALSE
