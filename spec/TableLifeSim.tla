--------------------------- MODULE TableLifeSim ---------------------------
(***************************************************************************)
(* Behaviour generator: TableLife's actions with a label history, run under *)
(* tlc -simulate.  Each behaviour of length D is printed as one JSON line   *)
(* ("HIST") and turned (tools/tlc_scen.py) into a driver scenario in which  *)
(* every external call lands in the window of the asynchronous life cycle   *)
(* (before the gate fires / between the gate callback and tableGameOpen /   *)
(* between the open and the first published state / during the hand /       *)
(* between reset and the continue timer) that the model put it in.  The     *)
(* real engine is parked at the corresponding hook point while the driver   *)
(* makes those calls, so the schedule TLC chose is the schedule that runs.  *)
(***************************************************************************)
EXTENDS TableLife, Sequences, Json
CONSTANT D
VARIABLE hist
svars == <<vars, hist>>

L(name, arg) == hist' = Append(hist, [a |-> name, x |-> arg])
Coin(k) == RandomElement(1..k) = 1

SimInit == /\ Init
           /\ hist = <<[a |-> "init", x |-> [inn |-> {p \in Players : inn[p]}, blind |-> blind]]>>

(* what the open attempt does: 1 a hand opens, 2 it goes to sleep for a retry, 0 nothing *)
OpenOutcome == IF OpenGuardsPass /\ OpenSucceeds THEN 1 ELSE IF OpenGuardsPass /\ Retryable THEN 2 ELSE 0
RetryOutcome == IF status \in Running \/ released \/ status = "closed" THEN 0
                ELSE IF OpenSucceeds THEN 1 ELSE IF Retryable /\ retry > 1 THEN 2 ELSE 0

Sub == SUBSET Players \ {{}}
SimNext ==
  /\ Len(hist) < D
  /\ \/ Coin(4)  /\ gc < MaxHands /\ LET P == IF Coin(3) THEN RandomElement(Sub) ELSE Players IN SetUp(P) /\ L("setup", P)
     \/ Coin(2)  /\ \E p \in Players : Finish(p) /\ L("finish", p)
     \/ Coin(2)  /\ \E p \in Players : Rebuy(p) /\ L("rebuy", p)
     \/ Coin(3)  /\ \E p \in Players : SitIn(p) /\ L("sitin", p)
     \/ Coin(8)  /\ \E p \in Players : Leave(p) /\ L("leave", p)
     \/ Coin(4)  /\ \E p \in Players : chips[p] /\ UNCHANGED vars /\ L("addon", p)   \* chips added to a stack that is not empty: no life-cycle effect, lock-free
     \/ Coin(8)  /\ LET l == IF Coin(3) THEN RandomElement(Levels \ {blind}) ELSE RandomElement({1, 2}) IN UpdateBlind(l) /\ L("blind", l)
     \/ Coin(30) /\ status # "pausing" /\ Pause /\ L("pause", 0)
     \/ Coin(80) /\ ~released /\ Close /\ L("close", 0)
     \/ Coin(80) /\ ~released /\ Release /\ L("release", 0)
     \/ GateFire /\ L("gatefire", Cardinality(gate.parts))
     \/ TableGameOpen /\ L("open", OpenOutcome)
     \/ OpenRetry /\ L("openretry", RetryOutcome)
     \/ Publish /\ L("publish", 0)
     \/ ContinueFire /\ L("continue", 0)
     \/ hand = "live" /\ LET keep == RandomElement(SUBSET dealt \ {{}}) IN SettleAndReset(keep) /\ L("settle", [keep |-> keep, dealt |-> dealt])
     \/ UNCHANGED svars          \* (a draw in which no coin came up; -depth is chosen much larger than D)

Dump == /\ Len(hist) = D
        /\ PrintT(<<"HIST", ToJson(hist)>>)
        /\ hist' = Append(hist, [a |-> "end", x |-> 0])
        /\ UNCHANGED vars

SimSpec == SimInit /\ [][SimNext \/ Dump]_svars
=============================================================================
