SPECIFICATION Spec
CONSTANTS
 Players = {a, b, c}
 MinP = 2
 MaxHands = 2
 Levels <- LevelsDef
 Quiet = TRUE
 ExtSetUp = FALSE
 WithLeave = FALSE
 KF_OpenAfterClose = FALSE
 KF_GuardOnVisibleOnly = FALSE
KF_SurvivorsOnly = FALSE
KF_RetryUnguarded = FALSE
KF_CloneSwap = FALSE
MaxRetry = 2
PROPERTIES C08_Opens
CHECK_DEADLOCK FALSE
