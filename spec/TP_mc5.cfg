SPECIFICATION Spec
CONSTANTS
 None = None
 N = 5
 Players = {p1, p2, p3, p4}
 RuleC = "default"
 MaxBatch = 1
PROPERTIES A_codeLabelsFollowRule A_bbLabelled A_disjoint A_everyDealtInLabelled A_oneDealer A_listClockwise
SYMMETRY Sym
VIEW V
CHECK_DEADLOCK FALSE
