---------------------------- MODULE ManagerTrace ----------------------------
(***************************************************************************)
(* C17 over calls recorded from the REAL pokertable.Manager (vh mgrreg):   *)
(* creates, closes, releases and forwarded calls on a handful of ids, some *)
(* of them made from inside another table's create / close callback or by  *)
(* another goroutine while that callback is held -- i.e. while the outer    *)
(* call is between its look-up and its registry change (ManagerReg's Begin  *)
(* / End).  The lines are replayed through the registry functions of        *)
(* RegistryOps; every result and every probe must be what the registry      *)
(* says: found exactly when the id is registered (created, not closed /     *)
(* released), the engine found is the one created last under that id, and   *)
(* a forwarded reservation shows on that table and on no other.             *)
(* Lines: [tr, n, ev, op, id, res, call, eng, pid, players].                *)
(***************************************************************************)
EXTENDS RegistryOps, Json, IOUtils
VARIABLES l, g
Trace == ndJsonDeserialize(IOEnv.TRACE)
Clause(name, ok, tag, k) == ok \/ PrintT(<<"VIOL", name, k, tag>>)
G0 == [tr |-> -1, reg |-> Empty, open |-> [c \in {} |-> 0], members |-> [e \in {} |-> {}]]
PutF(f, k, v) == [x \in DOMAIN f \cup {k} |-> IF x = k THEN v ELSE f[x]]
NF == "ErrManagerTableNotFound"

Upd(gg, k) ==
  LET t == Trace[k]
      g0 == IF t.tr # gg.tr THEN [G0 EXCEPT !.tr = t.tr] ELSE gg
  IN
  CASE t.ev = "begin" ->
         [g0 EXCEPT !.open = PutF(@, t.call, [found |-> Found(g0.reg, t.id), eng |-> IF Found(g0.reg, t.id) THEN g0.reg[t.id] ELSE 0])]
    [] t.ev = "end" /\ t.call \in DOMAIN g0.open ->
         LET o == g0.open[t.call] IN
         CASE t.op = "create" /\ t.res = "ok" -> [g0 EXCEPT !.reg = Put(@, t.id, t.eng), !.members = PutF(@, t.eng, {})]
           [] t.op \in {"close", "release"} /\ o.found /\ t.res = "ok" -> [g0 EXCEPT !.reg = AfterRemove(@, @, t.id, FALSE)]
           [] t.op = "reserve" /\ o.found /\ t.res = "ok" /\ o.eng \in DOMAIN g0.members -> [g0 EXCEPT !.members[o.eng] = @ \cup {t.pid}]
           [] t.op = "reset" -> [g0 EXCEPT !.reg = Empty]
           [] OTHER -> g0
    [] OTHER -> g0

CheckLine(k, gg) ==
  LET t == Trace[k]
      g0 == IF t.tr # gg.tr THEN [G0 EXCEPT !.tr = t.tr] ELSE gg
  IN
  /\ (t.ev = "end" /\ t.call \in DOMAIN g0.open /\ t.op \notin {"create", "reset"}) =>
        LET o == g0.open[t.call] IN
        /\ Clause("C17_notFound", ~o.found => t.res = NF, "", k)
        /\ Clause("C17_liveTableFound", o.found => t.res # NF, "", k)
        /\ Clause("C17_engineResult", (o.found /\ t.op \in {"close", "release", "pause", "get"}) => t.res = "ok", "", k)
        /\ Clause("C17_rightEngine", (o.found /\ t.op = "get") => t.eng = o.eng, "", k)
  /\ (t.ev = "end" /\ t.op = "create") => Clause("C17_createAccepted", t.res = "ok", "", k)
  /\ t.ev = "probe" =>
        /\ Clause("C17_liveTableFound", Found(g0.reg, t.id) => (t.res = "ok" /\ t.eng = g0.reg[t.id]), "", k)
        /\ Clause("C17_notFound", ~Found(g0.reg, t.id) => t.res = NF, "", k)
        /\ (Found(g0.reg, t.id) /\ t.res = "ok" /\ g0.reg[t.id] \in DOMAIN g0.members) =>
              Clause("C17_effectOnOwnTableOnly", {t.players[i] : i \in 1..Len(t.players)} = g0.members[g0.reg[t.id]], "", k)

Init == l = 1 /\ g = G0
Next == l <= Len(Trace) /\ l' = l + 1 /\ g' = Upd(g, l)
Spec == Init /\ [][Next]_<<l, g>>
Verdict == l > Len(Trace) \/ CheckLine(l, g)
Done == TLCGet("stats").diameter = Len(Trace) + 1 \/ PrintT(<<"INCOMPLETE", TLCGet("stats").diameter, Len(Trace)>>)
=============================================================================
