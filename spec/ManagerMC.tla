------------------------------ MODULE ManagerMC ------------------------------
(***************************************************************************)
(* manager.go: a registry id -> engine.  Every operation looks the engine   *)
(* up and forwards; Close / Release delete the entry; Reset empties the     *)
(* registry.  A table is abstracted to the sequence of operations its       *)
(* engine has received (what "same effect as the engine call" means here);  *)
(* the binding to the real effect predicates is the table property layer    *)
(* evaluated on traces driven through the manager.                          *)
(***************************************************************************)
EXTENDS Integers, Sequences, FiniteSets, TLC
CONSTANTS Ids, Ops, MaxLen
VARIABLES reg, created, last
vars == <<reg, created, last>>
Init == reg = [i \in {} |-> <<>>] /\ created = {} /\ last = [op |-> "none", id |-> "none", res |-> "ok"]
Create(id) == /\ reg' = [i \in DOMAIN reg \cup {id} |-> IF i = id THEN <<>> ELSE reg[i]]   \* CreateTable stores (overwrites) the entry
              /\ created' = created \cup {id} /\ last' = [op |-> "create", id |-> id, res |-> "ok"]
Forward(id, op) ==
  IF id \in DOMAIN reg
  THEN /\ Len(reg[id]) < MaxLen
       /\ reg' = [reg EXCEPT ![id] = Append(@, op)] /\ last' = [op |-> op, id |-> id, res |-> "ok"] /\ UNCHANGED created
  ELSE /\ last' = [op |-> op, id |-> id, res |-> "ErrManagerTableNotFound"] /\ UNCHANGED <<reg, created>>
Remove(id, op) ==
  IF id \in DOMAIN reg
  THEN /\ reg' = [i \in DOMAIN reg \ {id} |-> reg[i]] /\ last' = [op |-> op, id |-> id, res |-> "ok"] /\ UNCHANGED created
  ELSE /\ last' = [op |-> op, id |-> id, res |-> "ErrManagerTableNotFound"] /\ UNCHANGED <<reg, created>>
Reset == reg' = [i \in {} |-> <<>>] /\ last' = [op |-> "reset", id |-> "none", res |-> "ok"] /\ UNCHANGED created
Next == \/ \E id \in Ids : Create(id) \/ Remove(id, "close") \/ Remove(id, "release")
        \/ \E id \in Ids, op \in Ops : Forward(id, op)
        \/ Reset
Spec == Init /\ [][Next]_vars
(* an operation addressed to id changes at most table id *)
Isolation == [][\A i \in (DOMAIN reg \cap DOMAIN reg') : (i # last'.id /\ last'.op # "reset") => reg'[i] = reg[i]]_vars
(* table-not-found exactly for ids that are not registered (never created, closed, released, reset) *)
NotFoundIff == [][(last'.op \notin {"create", "reset", "none"}) => ((last'.res = "ErrManagerTableNotFound") <=> (last'.id \notin DOMAIN reg))]_vars
(* a forwarded operation is appended to exactly that table's history *)
ForwardEffect == [][(last'.res = "ok" /\ last'.op \in Ops) => reg'[last'.id] = Append(reg[last'.id], last'.op)]_vars
=============================================================================
