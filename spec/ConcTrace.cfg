SPECIFICATION Spec
CONSTANTS
 None = ""
INVARIANT Verdict
POSTCONDITION Done
CHECK_DEADLOCK FALSE
