---------------------------- MODULE TableMembers ----------------------------
(***************************************************************************)
(* Sequential model of the membership operations of the table engine       *)
(* (table_engine.go PlayerReserve / PlayerJoin / PlayerRedeemChips /       *)
(* PlayersLeave / UpdateTablePlayers, table_engine_internal.go             *)
(* batchAddPlayers / batchRemovePlayers) over a seat-manager state         *)
(* (SeatManager.tla).  Each operation is a function from a membership      *)
(* state  [n, players : Seq([id, seat, bank, in]), sm]  to its set of      *)
(* possible [res, st] outcomes (random seats make it a set).               *)
(* Used three ways: exhaustive model (TableMembersMC), conformance of the  *)
(* sequential table traces, and the serial specification against which     *)
(* concurrent batches are linearised (ConcTrace, C16).                     *)
(***************************************************************************)
EXTENDS SeatManager

MIds(st) == {st.players[i].id : i \in 1..Len(st.players)}
MIdx(st, id) == CHOOSE i \in 1..Len(st.players) : st.players[i].id = id
MNew(n, rule) == [n |-> n, players |-> <<>>, sm |-> New(n, rule)]
MR(res, st) == [res |-> res, st |-> st]
SeqRange(s) == {s[i] : i \in 1..Len(s)}
SelectIdx(s, P(_)) == {i \in 1..Len(s) : P(s[i])}

(* batchAddPlayers(joins): joins is a sequence of [id, seat, chips]; seat = -1 asks for a random seat.
   The code does it in two phases with the verif hook point members.add.mid in between:
     Add1  duplicate check on the table's list, AssignSeats for the fixed seats, RandomAssignSeats for the others
           (a refused random part gives the fixed seats back)           -> outcome [res, st = seat manager]
     Add2  reads each newcomer's seat back from the seat manager, appends to the list, mirrors "no chips".
   Sequentially (engine lock held throughout) the batch is Add1 ; Add2 -- BatchAddOutcomes; Conc.tla interleaves them. *)
Add1(st, joins) ==
  LET ids == {joins[i].id : i \in 1..Len(joins)}
      dup == Cardinality(ids) # Len(joins) \/ ids \cap MIds(st) # {}
      fixedI == {i \in 1..Len(joins) : joins[i].seat # -1}
      randI == {i \in 1..Len(joins) : joins[i].seat = -1}
      fixedIds == {joins[i].id : i \in fixedI}
      randIds == {joins[i].id : i \in randI}
      m == [a \in fixedIds |-> joins[CHOOSE i \in fixedI : joins[i].id = a].seat]
      A1 == IF fixedI = {} THEN {R("ok", st.sm)} ELSE AssignOutcomes(st.sm, m)
  IN IF dup THEN {R("ErrDuplicatePlayers", st.sm)}
     ELSE UNION {
       IF o1.res # "ok" THEN {R(o1.res, st.sm)}
       ELSE { IF o2.res # "ok" THEN R(o2.res, st.sm)            \* the fixed seats are given back
              ELSE R("ok", o2.st)
            : o2 \in (IF randI = {} THEN {R("ok", o1.st)} ELSE RandomAssignOutcomesN(o1.st, Cardinality(randI), randIds)) }
       : o1 \in A1 }

Add2(st, joins) ==
  IF \E i \in 1..Len(joins) : ~Seated(st.sm, joins[i].id) THEN MR("ErrPlayerNotFound", st)     \* GetSeatID fails (only when interleaved)
  ELSE LET sm2 == st.sm
           sm3 == [sm2 EXCEPT !.seat = [s \in SeatsOf(sm2) |->
                     IF \E i \in 1..Len(joins) : joins[i].id = sm2.seat[s].id /\ joins[i].chips <= 0
                     THEN [sm2.seat[s] EXCEPT !.chips = FALSE] ELSE sm2.seat[s]]]
       IN MR("ok", [st EXCEPT !.sm = sm3,
                             !.players = st.players \o [i \in 1..Len(joins) |->
                                 [id |-> joins[i].id, seat |-> SeatOf(sm2, joins[i].id), bank |-> joins[i].chips, in |-> FALSE]]])

BatchAddOutcomes(st, joins) ==
  { IF a.res # "ok" THEN MR(a.res, st) ELSE Add2([st EXCEPT !.sm = a.st], joins) : a \in Add1(st, joins) }

ReserveOutcomes(st, id, seat, chips) ==
  IF id \in MIds(st)
  THEN {MR("ok", [st EXCEPT !.players[MIdx(st, id)].bank = @ + chips,
                           !.sm = SetChipsF(st.sm, id, st.players[MIdx(st, id)].bank + chips > 0).st])}      \* re-buy
  ELSE IF Len(st.players) = st.n THEN {MR("ErrTableNoEmptySeats", st)}
  ELSE BatchAddOutcomes(st, <<[id |-> id, seat |-> seat, chips |-> chips]>>)

RemovePlayers(st, ids) ==
  [st EXCEPT !.players = SelectSeq(st.players, LAMBDA p : p.id \notin ids)]
LeaveF(st, idseq) ==
  LET r == RemoveF(st.sm, SeqRange(idseq)) IN
  IF r.res # "ok" THEN MR("ErrPlayerNotFound", st)
  ELSE MR("ok", [RemovePlayers(st, SeqRange(idseq)) EXCEPT !.sm = r.st])

(* UpdateTablePlayers(joins, leaves): leave first, then join.  KF: when the join part is refused the leavers are gone. *)
UpdateOutcomes(st, joins, idseq) ==
  LET l == IF Len(idseq) > 0 THEN LeaveF(st, idseq) ELSE MR("ok", st) IN
  IF l.res # "ok" THEN {l}
  ELSE IF Len(joins) = 0 THEN {l}
  ELSE BatchAddOutcomes(l.st, joins)          \* an error outcome here carries l.st, not st (recorded finding)

JoinOutcome(st, id) ==
  IF id \notin MIds(st) THEN MR("ErrTablePlayerNotFound", st)
  ELSE IF st.players[MIdx(st, id)].in THEN MR("ok", st)
  ELSE MR("ok", [st EXCEPT !.players[MIdx(st, id)].in = TRUE, !.sm = JoinF(st.sm, {id}).st])

RedeemOutcome(st, id, chips) ==
  IF id \notin MIds(st) THEN MR("ErrTablePlayerNotFound", st)
  ELSE LET b == st.players[MIdx(st, id)].bank + chips IN
       MR("ok", [st EXCEPT !.players[MIdx(st, id)].bank = b, !.sm = SetChipsF(st.sm, id, b > 0).st])

(* ---- the serial specification concurrent batches are linearised against (ConcTrace: recorded batches of the real
   engine; Conc: every interleaving of the lock-level model).  An op is a record with fields op, id, seat, chips, ids
   (sequence), joins (sequence of [id, seat, chips]), pairs (sequence of [id, seat]: a bare AssignSeats map), res. ---- *)
MOut(st, o) ==
  CASE o.op = "reserve" -> ReserveOutcomes(st, o.id, o.seat, o.chips)
    [] o.op = "leave" -> {LeaveF(st, o.ids)}
    [] o.op = "update" -> UpdateOutcomes(st, o.joins, o.ids)
(* a partial state is compatible with the final one when every player of it that is still there at the end sits where he sits at the end *)
(* (a pruning of the search only; players that some call of the batch removes may sit elsewhere when they come back) *)
Leavers(ops) == UNION {{ops[i].ids[j] : j \in 1..Len(ops[i].ids)} : i \in {x \in 1..Len(ops) : ops[x].op \in {"leave", "update"}}}
MCompat(st, post, ops) == \A i \in 1..Len(st.players) :
    (st.players[i].id \in MIds(post) /\ st.players[i].id \notin Leavers(ops)) => post.players[MIdx(post, st.players[i].id)].seat = st.players[i].seat
RECURSIVE MLin(_, _, _, _)
MLin(st, rem, ops, post) ==
  IF rem = {} THEN st = post
  ELSE \E i \in rem : \E o \in MOut(st, ops[i]) :
         o.res = ops[i].res /\ MCompat(o.st, post, ops) /\ MLin(o.st, rem \ {i}, ops, post)

(* ---- what C03 states, on a membership state -------------------------------------------------- *)
MConsistent(st) ==
  /\ \A i, j \in 1..Len(st.players) : (st.players[i].id = st.players[j].id \/ st.players[i].seat = st.players[j].seat) => i = j
  /\ \A i \in 1..Len(st.players) :
        /\ st.players[i].seat \in SeatsOf(st.sm)
        /\ st.sm.seat[st.players[i].seat].id = st.players[i].id
        /\ st.sm.seat[st.players[i].seat].in = st.players[i].in
  /\ \A s \in SeatsOf(st.sm) : Occ(st.sm, s) => \E i \in 1..Len(st.players) : st.players[i].seat = s
  /\ Len(st.players) <= st.n
MTotal(st) == LET RECURSIVE Sum(_) Sum(k) == IF k = 0 THEN 0 ELSE st.players[k].bank + Sum(k - 1) IN Sum(Len(st.players))
=============================================================================
