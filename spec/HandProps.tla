----------------------------- MODULE HandProps -----------------------------
(* Property layer at hand level: what C01 (chips inside a hand), C10 (who
   may act), C11 (a hand finishes), C18 (bot moves are legal) and C19
   (auto-play is conservative) state about a single hand state / step.     *)
EXTENDS HandRules

(* ---- settlement (pokerface settlement.Calculate): one pot level per distinct
   total contribution; folded players contribute but cannot win; remainder
   chips go to the first winners in index order                              *)
SetMax(S) == CHOOSE x \in S : \A y \in S : x >= y
SeqByRankH(S) == [k \in 1..Cardinality(S) |-> CHOOSE x \in S : Cardinality({u \in S : u < x}) = k - 1]
Changed(s, score) ==
  LET I == Idx(s)
      pot(i) == s.p[i].pot
      sc(i) == IF s.p[i].fold THEN 0 ELSE score[i]
      lv == SeqByRankH({pot(i) : i \in I})
      prev(k) == IF k = 1 THEN 0 ELSE lv[k - 1]
      C(k) == {i \in I : pot(i) >= lv[k]}
      w(k) == lv[k] - prev(k)
      W(k) == {i \in C(k) : sc(i) = SetMax({sc(j) : j \in C(k)})}
      rankIn(k, i) == Cardinality({j \in W(k) : j < i})
      gain(k, i) == IF i \notin C(k) THEN 0
                    ELSE IF i \in W(k)
                         THEN ((Cardinality(C(k)) * w(k)) \div Cardinality(W(k)))
                              + (IF rankIn(k, i) < ((Cardinality(C(k)) * w(k)) % Cardinality(W(k))) THEN 1 ELSE 0) - w(k)
                         ELSE - w(k)
      RECURSIVE Sum(_, _)
      Sum(i, k) == IF k = 0 THEN 0 ELSE gain(k, i) + Sum(i, k - 1)
  IN [i \in I |-> Sum(i, Len(lv))]

(* ---- C01 inside a hand -------------------------------------------------- *)
Conserved(s) == Total(s) = Bank(s)
NonNegative(s) == \A i \in Idx(s) : s.p[i].stack >= 0 /\ s.p[i].wager >= 0 /\ s.p[i].pot >= 0
SettlementConserves(s, score) ==
  LET ch == Changed(s, score) IN
  /\ SumP(s, BankOfP) + (LET RECURSIVE Sm(_) Sm(k) == IF k = s.np THEN 0 ELSE ch[k] + Sm(k + 1) IN Sm(0)) = Bank(s)
  /\ \A i \in Idx(s) : s.p[i].bankroll + ch[i] >= 0
  /\ \A i \in Idx(s) : s.p[i].bankroll + ch[i] = s.p[i].stack + ch[i] + s.p[i].pot   \* Final = what is left + what is won back

(* ---- C10: only the player to act has anything allowed while a round runs - *)
OnlyMoverAllowed(s) == s.ev = "RoundStarted" => \A i \in Idx(s) : i # s.cur => s.p[i].allowed = {}
MoverHasMove(s) == s.ev = "RoundStarted" => s.p[s.cur].allowed # {}

(* ---- C18: what the bot may submit (actor/bot_runner.go requestAI) -------- *)
(* every (action, amount) pair the random draws can produce for player i      *)
BotMoves(s, i) ==
  LET q == s.p[i]  al == q.allowed IN
  IF "pass" \in al THEN {<<"pass", 0>>}
  ELSE UNION {
    CASE a = "bet" ->
           IF q.init <= s.minibet THEN {<<"bet", q.init>>}
           ELSE {<<"bet", c>> : c \in s.minibet..(q.init - 1)}
      [] a = "raise" ->
           IF q.init <= s.cw + s.prs THEN {<<"raise", q.init>>}
           ELSE {<<"raise", c>> : c \in (s.cw + s.prs)..(q.init - 1)}
      [] OTHER -> {<<a, 0>>}
    : a \in al }
(* a move is legal when pokerface accepts it: kind allowed; a bet is paid in
   full or all-in; a raise level is above the current wager                   *)
LegalMove(s, i, m) ==
  /\ m[1] \in s.p[i].allowed
  /\ m[1] = "bet" => m[2] >= 1 /\ m[2] <= s.p[i].init
  /\ m[1] = "raise" => m[2] > 0 /\ m[2] >= s.cw /\ m[2] <= s.p[i].init /\ (m[2] = s.cw => "call" \in s.p[i].allowed)
BotLegal(s) == s.ev = "RoundStarted" => \A m \in BotMoves(s, s.cur) : LegalMove(s, s.cur, m)

(* ---- C19: auto-play (actor/player_runner.go automate) -------------------- *)
AutoMove(s, i) ==
  LET al == s.p[i].allowed IN
  IF "pass" \in al THEN "pass" ELSE IF "check" \in al THEN "check" ELSE IF "fold" \in al THEN "fold" ELSE "none"
AutoConservative(s) ==
  s.ev = "RoundStarted" =>
    LET m == AutoMove(s, s.cur) IN
    /\ m \in {"pass", "check", "fold"}
    /\ m \in s.p[s.cur].allowed
    /\ m = "pass" <=> s.p[s.cur].allowed = {"pass"}
    /\ m = "fold" => "check" \notin s.p[s.cur].allowed
=============================================================================
