--------------------------- MODULE TableLifeTrace ---------------------------
(***************************************************************************)
(* Conformance of recorded table behaviours with the life-cycle model      *)
(* (code -> spec).  The trace specification re-uses TableLife's own        *)
(* actions: every recorded life-cycle event must be an enabled TableLife   *)
(* action, and at every quiescent line the model's control state (status   *)
(* class, hand counter, hand none / unpublished / live, blind level,       *)
(* gate armed with whom) must equal the projection recorded from the real  *)
(* engine.  Who has chips and who sits in is environment: it is copied     *)
(* from the recorded state before each event (phase "sync").               *)
(*                                                                         *)
(*   recorded line                      TableLife action                   *)
(*   ret:CreateTable                    (initial state of the table)       *)
(*   ret:SetUpTableGame, cb:readyfirst  SetUp(ids)                         *)
(*   ret:UpdateBlind / Pause / Close / Release      the same               *)
(*   hook gate.fire                     GateFire                           *)
(*   hook open.enter                    TableGameOpen                      *)
(*   hook open.retry                    OpenRetry                          *)
(*   hook open.swap                     OpenSwap  (the model runs with     *)
(*                                      KF_CloneSwap = TRUE: the code as   *)
(*                                      it is, see known_findings.json)    *)
(*   first cb:updated carrying the hand Publish                            *)
(*   hook continue.reset                SettleAndReset(who kept chips)     *)
(*   hook continue.fire                 ContinueFire                       *)
(*                                                                         *)
(* A mismatch prints <<"DRIFT", line, what>> (a warning:  *)
(* the model and the code disagree; verdicts come from TableTrace) and the *)
(* rest of that scenario is skipped.                                       *)
(***************************************************************************)
EXTENDS TableLife, Sequences, Json, IOUtils
VARIABLES l, phase, bad
tvars == <<vars, l, phase, bad>>
Trace == ndJsonDeserialize(IOEnv.TRACE)

SeqRange(s) == {s[i] : i \in 1..Len(s)}
StIds(st) == {st.players[i].id : i \in 1..Len(st.players)}
\* the drivers name players p1, p2, ...; a fixed universe keeps the constant cheap (a player outside it would show as DRIFT)
TracePlayers == {"p" \o ToString(i) : i \in 1..48}
ObsChips(st) == [p \in Players |-> \E i \in 1..Len(st.players) : st.players[i].id = p /\ st.players[i].bank > 0]
ObsInn(st) == [p \in Players |-> \E i \in 1..Len(st.players) : st.players[i].id = p /\ st.players[i].in]
MapStatus(s) == CASE s \in {"table_game_opened", "table_game_playing", "table_game_settled"} -> "playing"
                  [] s = "table_game_standby" -> "standby"
                  [] s = "table_pausing" -> "pausing"
                  [] s = "table_closed" -> "closed"
                  [] OTHER -> "created"
ObsHand(st) == IF Len(st.hand) = 1 THEN "live" ELSE IF Len(st.gpi) > 0 THEN "unpublished" ELSE "none"
ObsGateParts(st) == {st.gate.parts[i][1] : i \in 1..Len(st.gate.parts)}
Usable(t) == t.st.status \notin {"none", "projection-panic"}

RetryKeys == {"open.retry"} \cup {"open.retry#" \o ToString(i) : i \in 1..60}     \* (the k-th passage of the hook point)
Kind(t) ==
  CASE t.ev = "scenario" -> "scenario"
    [] t.ev = "ret:CreateTable" /\ t.res = "ok" -> "create"
    [] (t.ev = "ret:SetUpTableGame" /\ t.res = "ok") \/ t.ev = "cb:readyfirst" -> "setup"      \* (the driver answers the first-hand callback with a set-up)
    [] t.ev = "ret:UpdateBlind" /\ t.res = "ok" -> "blind"
    [] t.ev = "ret:PauseTable" /\ t.res = "ok" -> "pause"
    [] t.ev = "ret:CloseTable" /\ t.res = "ok" -> "close"
    [] t.ev = "ret:ReleaseTable" /\ t.res = "ok" -> "release"
    [] t.ev = "hook" /\ t.a.kind = "gate.fire" -> "gatefire"
    [] t.ev = "hook" /\ t.a.kind = "open.enter" -> "open"
    \* the hook point lies before the loop's re-check: when the driver parked the engine there, the calls it made meanwhile
    \* come first and the re-check happens at the release
    [] t.ev = "hook" /\ t.a.kind = "open.retry" ->
         (IF l < Len(Trace) /\ Trace[l + 1].ev = "parked" /\ Trace[l + 1].a.kind \in RetryKeys THEN "skip" ELSE "retry")
    [] t.ev = "released" /\ t.a.kind \in RetryKeys -> "retry"
    [] t.ev = "hook" /\ t.a.kind = "open.swap" -> "swap"
    [] t.ev = "hook" /\ t.a.kind = "continue.reset" -> "settle"
    [] t.ev = "hook" /\ t.a.kind = "continue.fire" -> "continue"
    [] t.ev = "cb:updated" /\ Len(t.st.hand) = 1 /\ hand = "unpublished" -> "publish"
    [] t.ev \in {"q", "end"} -> "compare"
    [] OTHER -> "skip"

Drift(what, m, o) == PrintT(<<"DRIFT", l, what>>) /\ bad' = TRUE /\ UNCHANGED vars
Keep == UNCHANGED vars /\ bad' = bad

Init0 == /\ status = "created" /\ gc = 0 /\ hand = "none" /\ gblind = 0 /\ blind = 1 /\ released = FALSE /\ gate = NoGate /\ opens = 0
         /\ cont = FALSE /\ chips = [p \in Players |-> FALSE] /\ inn = [p \in Players |-> FALSE] /\ dealt = {} /\ survivors = {}
         /\ ext = FALSE /\ closedBetween = FALSE /\ opened2 = FALSE /\ retry = 0 /\ win = NoWin
TInit == Init0 /\ l = 1 /\ phase = "sync" /\ bad = TRUE

Create(t) == /\ status' = IF t.a.blind[1] = -1 THEN "pausing" ELSE "created"
             /\ gc' = 0 /\ hand' = "none" /\ gblind' = 0 /\ blind' = t.a.blind[1] /\ released' = FALSE /\ gate' = NoGate /\ opens' = 0
             /\ cont' = FALSE /\ chips' = ObsChips(t.st) /\ inn' = ObsInn(t.st) /\ dealt' = {} /\ survivors' = {}
             /\ ext' = FALSE /\ closedBetween' = FALSE /\ opened2' = FALSE /\ retry' = 0 /\ win' = NoWin /\ bad' = (t.st.minp # MinP)       \* (the model's table minimum is a constant)

(* phase "sync": the environment part of the model is taken from the recorded line *)
Sync == /\ phase = "sync" /\ l <= Len(Trace) /\ phase' = "act" /\ l' = l /\ bad' = bad
        /\ IF ~bad /\ Usable(Trace[l]) /\ Kind(Trace[l]) \notin {"scenario", "create", "skip"}
           THEN /\ chips' = (IF Kind(Trace[l]) = "settle" THEN chips ELSE ObsChips(Trace[l].st))     \* (SettleAndReset writes chips itself)
                /\ inn' = ObsInn(Trace[l].st)
                /\ UNCHANGED <<status, gc, hand, gblind, blind, released, gate, opens, cont, dealt, survivors, ext, closedBetween, opened2, retry, win>>
           ELSE UNCHANGED vars

Compare(t) ==
  LET m == <<status, gc, hand, blind, gate.armed, IF gate.armed THEN gate.parts ELSE {}>>
      o == <<MapStatus(t.st.status), t.st.gc, ObsHand(t.st), t.st.blind[1], gate.armed, IF gate.armed THEN ObsGateParts(t.st) ELSE {}>>
  IN IF m = o THEN Keep ELSE Drift("state", m, o)

(* GateFire without the model's bound on callbacks in flight *)
GateFireT == /\ gate' = [gate EXCEPT !.armed = FALSE]
             /\ opens' = IF Cardinality(gate.parts) > 1 THEN opens + 1 ELSE opens
             /\ UNCHANGED <<status, gc, hand, gblind, blind, released, cont, chips, inn, dealt, survivors, ext, closedBetween, opened2, retry, win>>

Act ==
  /\ phase = "act" /\ l <= Len(Trace) /\ phase' = "sync" /\ l' = l + 1
  /\ LET t == Trace[l]  k == Kind(t) IN
     IF k = "scenario" THEN UNCHANGED vars /\ bad' = TRUE
     ELSE IF k = "create" THEN Create(t)
     ELSE IF bad \/ k = "skip" \/ ~Usable(t) THEN Keep
     ELSE IF k = "setup" THEN SetUp(SeqRange(t.a.ids) \cap Players) /\ bad' = bad
     ELSE IF k = "blind" THEN UpdateBlind(t.a.blind[1]) /\ bad' = bad
     ELSE IF k = "pause" THEN Pause /\ bad' = bad
     ELSE IF k = "close" THEN Close /\ bad' = bad
     ELSE IF k = "release" THEN Release /\ bad' = bad
     ELSE IF k = "gatefire" THEN (IF gate.armed THEN GateFireT /\ bad' = bad ELSE Drift("gate.fire but no gate armed", gate, t.st.gate))
     ELSE IF k = "open" THEN (IF opens > 0 /\ retry = 0 /\ ~win.on THEN TableGameOpen /\ bad' = bad ELSE Drift("tableGameOpen not enabled", <<opens, retry>>, 0))
     ELSE IF k = "retry" THEN (IF retry > 0 /\ ~win.on THEN OpenRetry /\ bad' = bad ELSE Drift("open.retry but the model is not retrying", retry, 0))
     ELSE IF k = "swap" THEN (IF win.on THEN OpenSwap /\ bad' = bad ELSE Drift("open.swap without a prepared clone", win, 0))
     ELSE IF k = "publish" THEN Publish /\ bad' = bad
     ELSE IF k = "settle" THEN
          (IF hand = "live" /\ dealt # {}
           THEN LET kp == {p \in dealt : ObsChips(t.st)[p]} IN
                SettleAndReset(IF kp = {} THEN dealt ELSE kp) /\ bad' = bad
           ELSE Drift("settlement without a live hand", hand, ObsHand(t.st)))
     ELSE IF k = "continue" THEN (IF cont THEN ContinueFire /\ bad' = bad ELSE Drift("continue timer without a settled hand", cont, 0))
     ELSE Compare(t)

TNext == Sync \/ Act
TSpec == TInit /\ [][TNext]_tvars
Done == TLCGet("stats").diameter = 2 * Len(Trace) + 1 \/ PrintT(<<"INCOMPLETE", TLCGet("stats").diameter, Len(Trace)>>)
=============================================================================
