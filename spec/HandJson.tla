------------------------------ MODULE HandJson ------------------------------
(* Conversion of the projected hand state the harness records (PHand in
   harness/cmd/vh/rec.go) into the state record of HandRules.                *)
EXTENDS HandProps
RangeOf(s) == {s[i] : i \in 1..Len(s)}
ToHand(h) ==
  [np |-> Len(h.p), ante |-> h.ante, dealerB |-> h.bl[1], sb |-> h.bl[2], bb |-> h.bl[3],
   ev |-> h.ev, round |-> h.round, cur |-> h.cur, raiser |-> h.raiser, cw |-> h.cw, prs |-> h.prs, minibet |-> h.mb,
   p |-> [i \in 0..(Len(h.p) - 1) |->
            LET q == h.p[i + 1] IN
            [pos |-> RangeOf(q.pos), bankroll |-> q.bankroll, init |-> q.init, stack |-> q.stack, wager |-> q.wager,
             pot |-> q.pot, fold |-> q.fold, acted |-> q.acted, did |-> q.did, allowed |-> RangeOf(q.allowed)]]]
\* "ready" / "pay" are added to the published allowed lists by the table-side wrapper (game.go), not by the rules
StripWrapper(s) == [s EXCEPT !.p = [i \in Idx(s) |-> [s.p[i] EXCEPT !.allowed = @ \ {"ready", "pay"}]]]
ScoreOf(h) == [i \in 0..(Len(h.p) - 1) |-> h.p[i + 1].rank + 1]
ResultChanged(h) == [i \in 0..(Len(h.p) - 1) |->
   LET r == CHOOSE k \in 1..Len(h.result) : h.result[k][1] = i IN h.result[r][3]]
ResultFinal(h) == [i \in 0..(Len(h.p) - 1) |->
   LET r == CHOOSE k \in 1..Len(h.result) : h.result[k][1] = i IN h.result[r][2]]
ResultComplete(h) == Len(h.result) = Len(h.p) /\ \A i \in 0..(Len(h.p) - 1) : \E k \in 1..Len(h.result) : h.result[k][1] = i
=============================================================================
