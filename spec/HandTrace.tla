----------------------------- MODULE HandTrace -----------------------------
(* Conformance + verdict over the transition system of the REAL game backend
   (vh hand-dfs): one line = one backend call [tr, from, act, n, res, to].
   DRIFT: the real transition differs from HandRules!Apply.
   VIOL : a hand-level property clause fails on the real state.              *)
EXTENDS HandJson, Json, IOUtils
VARIABLE l
Trace == ndJsonDeserialize(IOEnv.TRACE)
Clause(name, ok, tag, k) == ok \/ PrintT(<<"VIOL", name, k, tag>>)
CheckLine(k) ==
  LET t == Trace[k]
      from == ToHand(t.from)
      to == ToHand(t.to)
  IN /\ t.res = "ok" =>
        /\ (Apply(from, t.act, t.n) = to \/ PrintT(<<"DRIFT", k, t.act, t.n>>))
        /\ Clause("C01_handConserved", Conserved(to), "", k)
        /\ Clause("C01_handNonNegative", NonNegative(to), "", k)
        /\ Clause("C10_onlyMoverAllowed", OnlyMoverAllowed(to) /\ MoverHasMove(to), "", k)
        /\ Clause("C18_botLegal", BotLegal(to), "", k)
        /\ Clause("C19_autoConservative", AutoConservative(to), "", k)
        /\ Clause("C11_noDeadEnd", to.ev \in {"ReadyRequested", "AnteRequested", "BlindsRequested", "RoundStarted", "RoundClosed", "GameClosed"}, "", k)
        /\ to.ev = "GameClosed" =>
             /\ Clause("C11_resultComplete", ResultComplete(t.to), "", k)
             /\ ResultComplete(t.to) =>
                  /\ Clause("C01_handSettlement", ResultChanged(t.to) = Changed(to, ScoreOf(t.to)), "", k)
                  /\ Clause("C01_handFinal", \A i \in Idx(to) : ResultFinal(t.to)[i] = to.p[i].bankroll + ResultChanged(t.to)[i], "", k)
     /\ t.res # "ok" => Clause("C10_allowedAccepted", FALSE, "", k)   \* an allowed action with an in-range amount was refused
Init == l = 1
Next == l <= Len(Trace) /\ l' = l + 1
Spec == Init /\ [][Next]_l
Verdict == l > Len(Trace) \/ CheckLine(l)
Done == TLCGet("stats").diameter = Len(Trace) + 1 \/ PrintT(<<"INCOMPLETE", TLCGet("stats").diameter, Len(Trace)>>)
=============================================================================
