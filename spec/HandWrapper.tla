---------------------------- MODULE HandWrapper ----------------------------
(***************************************************************************)
(* The per-hand wrapper of the table engine (game.go) around the hand      *)
(* rules (HandRules.tla):                                                  *)
(*   - every state the backend returns is cloned into g.gs (variable S)    *)
(*     and queued (q) for the updater goroutine;                           *)
(*   - the updater handles the queue in order: it publishes (pub), arms    *)
(*     the ready group at ReadyRequested / AnteRequested / BlindsRequested *)
(*     and calls Next by itself at RoundClosed;                            *)
(*   - players answer (Answer) and act (Act) against g.gs, NOT against the *)
(*     published state: a player may act before the state was published;  *)
(*   - the ready group (syncsaga) completes at most once per arming, in    *)
(*     its own goroutine (RunCompleted), or after its 17 s time-out        *)
(*     (Timeout: everybody silent is marked ready);                        *)
(*   - a backend failure in a step the wrapper performs by itself is       *)
(*     reported (errs) and NOT retried: the hand stays where it is.        *)
(* Properties: C11 (asked sets, no early advance, time-out advances, the   *)
(* hand finishes when everybody answers), C10 (only the mover), C13        *)
(* (failures change nothing, the course is that of the successful steps),  *)
(* publication in order.                                                   *)
(***************************************************************************)
EXTENDS HandProps, Sequences
CONSTANTS StacksC, LabelsC, AnteC, DealerBC, SBC, BBC,
          MaxFaults,      \* how many backend calls may fail in one behaviour
          Silent          \* game indexes that never answer a readiness / ante / blind request (the time-out speaks for them)
VARIABLES S, q, pub, rg, faults, errs, closed, course
vars == <<S, q, pub, rg, faults, errs, closed, course>>

NoRG == [armed |-> FALSE, done |-> FALSE, parts |-> {}, ready |-> {}, st |-> <<>>, fired |-> FALSE]
Asking == {"ReadyRequested", "AnteRequested", "BlindsRequested"}
(* whom the wrapper asks at a collection point *)
Asked(s) == IF s.ev = "BlindsRequested" THEN {i \in Idx(s) : BlindOf(s, i) > 0} ELSE Idx(s)
Arms(s) == s.ev \in Asking /\ (s.ev = "AnteRequested" => s.ante > 0)

Init == /\ S \in {NewHand(b, LabelsC, AnteC, DealerBC, SBC, BBC) : b \in StacksC}
        /\ q = <<S>> /\ pub = <<>> /\ rg = NoRG /\ faults = 0 /\ errs = 0 /\ closed = FALSE
        /\ course = <<>>          \* the successful backend calls, in order (C13)

Produce(s2, call) == /\ S' = s2 /\ q' = Append(q, s2) /\ course' = Append(course, call)

(* ---- updater goroutine: one queued state at a time ---------------------- *)
Handle ==
  /\ q # <<>> /\ ~closed
  /\ LET s == Head(q) IN
     /\ pub' = <<s>>
     /\ IF Arms(s)
        THEN /\ rg' = [armed |-> TRUE, done |-> FALSE, parts |-> Asked(s), ready |-> {}, st |-> <<s>>, fired |-> FALSE]
             /\ q' = Tail(q) /\ UNCHANGED <<S, faults, errs, closed, course>>
        ELSE IF s.ev = "RoundClosed"
        THEN \/ /\ S' = NextF(s) /\ q' = Append(Tail(q), NextF(s)) /\ course' = Append(course, <<"next", 0>>)   \* Next on the dequeued state
                /\ UNCHANGED <<rg, faults, errs, closed>>
             \/ /\ faults < MaxFaults /\ faults' = faults + 1 /\ errs' = errs + 1 /\ q' = Tail(q)
                /\ UNCHANGED <<S, rg, closed, course>>
        ELSE IF s.ev = "GameClosed"
        THEN closed' = TRUE /\ q' = Tail(q) /\ UNCHANGED <<S, rg, faults, errs, course>>
        ELSE q' = Tail(q) /\ UNCHANGED <<S, rg, faults, errs, closed, course>>

(* ---- a player's answer (PlayerReady / PlayerPay at a collection point) ---
   validateActionMove reads g.gs: the "ready"/"pay" action was added by the handler to the very state object it armed
   for, so the answer is accepted iff that state is still the latest one and the player was asked                      *)
CanAnswer(i) == rg.armed /\ rg.st = <<S>> /\ i \in rg.parts
Answer(i) == /\ CanAnswer(i) /\ i \notin Silent
             /\ rg' = [rg EXCEPT !.ready = @ \cup {i}]
             /\ UNCHANGED <<S, q, pub, faults, errs, closed, course>>
(* the group's time-out: everybody still silent is marked ready (only while the group has not completed) *)
Timeout == /\ rg.armed /\ ~rg.done /\ rg.parts # {} /\ rg.ready # rg.parts
           /\ rg' = [rg EXCEPT !.ready = rg.parts, !.fired = TRUE]
           /\ UNCHANGED <<S, q, pub, faults, errs, closed, course>>
(* the group's worker notices that everybody is ready: completes once per arming *)
Complete == /\ rg.armed /\ ~rg.done /\ rg.parts # {} /\ rg.ready = rg.parts
            /\ rg' = [rg EXCEPT !.done = TRUE]
            /\ UNCHANGED <<S, q, pub, faults, errs, closed, course>>
(* ... and the completion callback (its own goroutine) performs the step on g.gs *)
RunCompleted ==
  /\ rg.armed /\ rg.done
  /\ \/ /\ Produce(Apply(S, AutoKind(S), 0), <<AutoKind(S), 0>>) /\ rg' = NoRG
        /\ UNCHANGED <<pub, faults, errs, closed>>
     \/ /\ faults < MaxFaults /\ faults' = faults + 1 /\ errs' = errs + 1 /\ rg' = [rg EXCEPT !.armed = FALSE]   \* reported, never retried
        /\ UNCHANGED <<S, q, pub, closed, course>>

(* ---- a wager action by game index i (validatePlayMove reads g.gs) -------- *)
Act(i, m) ==
  /\ i = S.cur /\ m \in Moves(S)
  /\ \/ Produce(Apply(S, m[1], m[2]), m) /\ UNCHANGED <<pub, rg, faults, errs, closed>>
     \/ faults < MaxFaults /\ faults' = faults + 1 /\ UNCHANGED <<S, q, pub, rg, errs, closed, course>>   \* the error goes back to the caller

Next == Handle \/ Timeout \/ Complete \/ RunCompleted
        \/ \E i \in Idx(S) : Answer(i) \/ \E m \in Moves(S) : Act(i, m)
Fair == /\ WF_vars(Handle) /\ WF_vars(Timeout) /\ WF_vars(Complete) /\ WF_vars(RunCompleted)
        /\ WF_vars(\E i \in Idx(S) : Answer(i) \/ \E m \in Moves(S) : Act(i, m))
Spec == Init /\ [][Next]_vars /\ Fair
V == <<S, q, pub, rg, faults, errs, closed>>      \* course is a history variable

(* ---- property layer ------------------------------------------------------ *)
(* C11: asked sets *)
C11_AskedSets == rg.armed =>
   LET s == rg.st[1] IN
   IF s.ev = "BlindsRequested"
   THEN rg.parts = {i \in Idx(s) : \/ (s.bb > 0 /\ "bb" \in Pos(s, i)) \/ (s.sb > 0 /\ "sb" \in Pos(s, i))
                                   \/ (s.dealerB > 0 /\ "dealer" \in Pos(s, i))}
   ELSE rg.parts = Idx(s)
(* C11: the hand leaves a collection point only when everybody asked has answered or the time-out passed *)
C11_NoEarlyAdvance == [][(S' # S /\ S.ev \in Asking) =>
                           (rg.armed /\ rg.done /\ rg.st = <<S>> /\ (rg.fired \/ rg.ready = rg.parts) /\ rg.parts \subseteq rg.ready)]_vars
(* C11: silence alone never advances; the time-out does *)
C11_SilentNeedsTimeout == [][(S' # S /\ S.ev \in Asking /\ rg.parts \cap Silent # {}) => rg.fired]_vars
(* C10: while a betting round is open the hand changes only by a legal move of the player to act *)
C10_OnlyMover == [][(S' # S /\ S.ev = "RoundStarted") => \E m \in Moves(S) : S' = Apply(S, m[1], m[2])]_vars
RoundClosedIsLatest == (q # <<>> /\ Head(q).ev = "RoundClosed") => Head(q) = S
(* publication: the updater publishes exactly the produced states, in order, each once *)
PubInOrder == [][pub' # pub => (q # <<>> /\ pub' = <<Head(q)>>)]_vars
QueueEndsWithLatest == (q # <<>> /\ ~closed) => q[Len(q)] = S
(* C13: a failure changes neither the hand nor the course *)
C13_FaultChangesNothing == [][faults' # faults => (S' = S /\ course' = course)]_vars
C13_ErrReported == errs <= faults
(* chips *)
I_Conserved == Conserved(S)
I_NonNegative == NonNegative(S)
(* C11: if every participant responds (Silent may be non-empty: the time-out answers) and nothing fails, the hand finishes *)
L_Finishes == (MaxFaults = 0) => <>(closed)
(* without faults nothing ever wedges: some step is enabled until the hand is closed *)
I_NoStall == (faults = 0) => (closed \/ ENABLED Next)

NoSilent == {}
Silent1 == {1}
Silent02 == {0, 2}
Std2 == StdLabels(2)
Std3 == StdLabels(3)
DeadBtn3 == <<{"sb", "dealer"}, {"bb"}, {"ug"}>>
S2 == {<<a, b>> : a \in 1..5, b \in 1..5}
S3 == {<<a, b, c>> : a \in 1..3, b \in 1..4, c \in 1..3}
=============================================================================
