-------------------------- MODULE TablePositionsMC --------------------------
(* The positions model over every seat-manager state reachable by play: SeatManagerMC's transition system with the
   C02 / C06 clauses of TablePositions as action properties.                                                      *)
EXTENDS TablePositions
CONSTANTS N, Players, RuleC, MaxBatch
VARIABLES sm, act
vars == <<sm, act>>
Maps(ids) == [ids -> 0..(N - 1)]
Batches == {S \in SUBSET Players : S # {} /\ Cardinality(S) <= MaxBatch}
Step(op, out) == sm' = out.st /\ act' = [op |-> op, res |-> out.res]
Init == sm = New(N, RuleC) /\ act = [op |-> "new", res |-> "ok"]
Next ==
  \/ \E ids \in Batches : \E m \in Maps(ids) : \E o \in AssignOutcomes(sm, m) : Step("assign", o)
  \/ \E ids \in Batches : Step("remove", RemoveF(sm, ids))
  \/ \E ids \in Batches : Step("join", JoinF(sm, ids))
  \/ \E p \in Players, b \in BOOLEAN : Step("chips", SetChipsF(sm, p, b))
  \/ \E o \in InitOutcomes(sm, TRUE) : Step("init", o)
  \/ Step("rotate", RotateF(sm))
Spec == Init /\ [][Next]_vars
P(C(_, _, _, _)) == C(sm, act'.op, act'.res, sm')
A_codeLabelsFollowRule == [][P(C06_codeLabelsFollowRule)]_vars
A_bbLabelled == [][P(C06_bbLabelled)]_vars
A_disjoint == [][P(C06_disjoint)]_vars
A_everyDealtInLabelled == [][P(C06_everyDealtInLabelled)]_vars
A_oneDealer == [][P(C06_oneDealer)]_vars
A_listClockwise == [][P(C02_listClockwise)]_vars
Sym == Permutations(Players)
V == sm
=============================================================================
