-------------------------- MODULE SeatManagerTrace --------------------------
(* Verdict + conformance run over transitions recorded from the REAL
   seat_manager (vh sm-bfs / sm-walk).  One line = one call:
     [tr, from, op, map, ids, id, flag, res, to]
   Verdict: every SeatManagerProps clause is evaluated on every line; a
   failing clause is printed as <<"VIOL", clause, line, tag>> (tag = the
   known-finding signature it matches, or "").
   Conformance: the line must be an outcome the tight model
   (SeatManager.tla) allows for that operation; otherwise <<"DRIFT", line>>. *)
EXTENDS SeatManagerProps, Json, IOUtils
VARIABLE l
Trace == ndJsonDeserialize(IOEnv.TRACE)

ToSeat(a) == [id |-> a[1], in |-> a[2], btw |-> a[3], chips |-> a[4]]
ToSt(j) == [n |-> j.n, rule |-> j.rule, seat |-> [s \in 0..(j.n - 1) |-> ToSeat(j.seat[s + 1])],
            dealer |-> j.dealer, sb |-> j.sb, bb |-> j.bb, inited |-> j.inited]
SeqToSet(s) == {s[i] : i \in 1..Len(s)}
HasDup(s) == \E i, j \in 1..Len(s) : i # j /\ s[i] = s[j]

Outcomes(pre, t) ==
  CASE t.op = "assign" -> AssignOutcomes(pre, t.map)
    [] t.op = "random" -> RandomAssignOutcomesN(pre, Len(t.ids), SeqToSet(t.ids))
    [] t.op = "remove" -> {RemoveF(pre, SeqToSet(t.ids))}
    [] t.op = "join"   -> {JoinF(pre, SeqToSet(t.ids))}
    [] t.op = "chips"  -> {SetChipsF(pre, t.id, t.flag)}
    [] t.op = "init"   -> InitOutcomes(pre, t.flag)
    [] t.op = "rotate" -> {RotateF(pre)}

Clause(name, ok, tag, k) == ok \/ PrintT(<<"VIOL", name, k, tag>>)

CheckLine(k) ==
  LET t == Trace[k]
      pre == ToSt(t.from)
      post == ToSt(t.to)
      op == t.op
      res == t.res
      newSeats == {s \in SeatsOf(pre) : ~Occ(pre, s) /\ Occ(post, s)}
      wf == t.from.extra = 0   \* states the seat manager should never be in are not judged further
  IN /\ Clause("C03_noPanic", res # "panic", "", k)
     /\ Clause("C03_smRange", t.to.extra = 0, "", k)
     /\ wf /\ t.to.extra = 0 /\ UniqueIds(pre) =>
        /\ Clause("C04_bbNext", C04_bbNext(pre, op, res, post), "", k)
        /\ Clause("C04_bbDealtIn", C04_bbDealtIn(pre, op, res, post), "", k)
        /\ Clause("C04_atLeastTwo", C04_atLeastTwo(pre, op, res, post), "", k)
        /\ Clause("C04_ringSB", C04_ringSB(pre, op, res, post), "", k)
        /\ Clause("C04_ringDealer", C04_ringDealer(pre, op, res, post), "", k)
        /\ Clause("C04_ringDistinct", C04_ringDistinct(pre, op, res, post),
                  IF KF_DealerOnBB(pre, op, res, post) THEN "KF-C04-dealer-on-bb" ELSE "", k)
        /\ Clause("C04_headsUp", C04_headsUp(pre, op, res, post), "", k)
        /\ Clause("C04_refusedMovesNothing", C04_refusedMovesNothing(pre, op, res, post), "", k)
        /\ Clause("C04_refusedOnlyIfFew", C04_refusedOnlyIfFew(pre, op, res, post),
                  IF KF_WaitingNewcomer(pre, op, res, post) THEN "KF-C04-waiting-newcomer" ELSE "", k)
        /\ Clause("C04_shortDeck", C04_shortDeck(pre, op, res, post), "", k)
        /\ Clause("C04_onlyRotationMovesButtons", C04_onlyRotationMovesButtons(pre, op, res, post), "", k)
        /\ Clause("C04_drawnOnce", C04_drawnOnce(pre, op, res, post), "", k)
        /\ Clause("C03_smUnique", C03_smUnique(pre, op, res, post), "", k)
        /\ Clause("C03_smErrorUnchanged", C03_smErrorUnchanged(pre, op, res, post), "", k)
        /\ Clause("C03_smRotateKeepsMembers", C03_smRotateKeepsMembers(pre, op, res, post), "", k)
        /\ Clause("C05_newcomerFlag", C05_newcomerFlag(pre, op, res, post, newSeats), "", k)
        /\ Clause("C05_continuity", C05_continuity(pre, op, res, post), "", k)
        /\ Clause("C05_waitsUntilRotation", C05_waitsUntilRotation(pre, op, res, post), "", k)
        /\ Clause("C05_rejoinTerms", C05_rejoinTerms(pre, op, res, post), "", k)
        /\ (R(res, post) \in Outcomes(pre, t) \/ PrintT(<<"DRIFT", k, op, res>>))

Init == l = 1
Next == l <= Len(Trace) /\ l' = l + 1
Spec == Init /\ [][Next]_l
Verdict == l > Len(Trace) \/ CheckLine(l)
Done == TLCGet("stats").diameter = Len(Trace) + 1 \/ PrintT(<<"INCOMPLETE", TLCGet("stats").diameter, Len(Trace)>>)
=============================================================================
