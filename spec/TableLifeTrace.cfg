SPECIFICATION TSpec
CONSTANTS
 Players <- TracePlayers
 MinP = 2
 MaxHands = 1000000
 Levels <- LevelsDef
 MaxRetry = 10
 Quiet = FALSE
 ExtSetUp = TRUE
 WithLeave = FALSE
 KF_OpenAfterClose = FALSE
 KF_GuardOnVisibleOnly = FALSE
 KF_SurvivorsOnly = FALSE
 KF_RetryUnguarded = FALSE
 KF_CloneSwap = TRUE
POSTCONDITION Done
CHECK_DEADLOCK FALSE
