SPECIFICATION Spec
CONSTANTS
 Ids = {a, b}
 MaxSetups = 2
 MaxSignals = 3
 FreshRG = FALSE
INVARIANT AllFiresLegal AtMostOncePerSetup
CHECK_DEADLOCK FALSE
