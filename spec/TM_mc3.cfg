SPECIFICATION Spec
CONSTANTS
 None = ""
 N = 3
 Players = {"p1", "p2", "p3"}
 MaxBank = 3
 WithFindings = FALSE
INVARIANTS I_Consistent I_Ledger
PROPERTY A_ErrorUnchanged
VIEW V
CHECK_DEADLOCK FALSE
