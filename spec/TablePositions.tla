--------------------------- MODULE TablePositions ---------------------------
(***************************************************************************)
(* What openGame derives from the seat manager after a rotation            *)
(* (table_engine_internal.go calcGamePlayerIndexes, position.go            *)
(* updatePlayerPositions), transcribed as functions of a seat-manager      *)
(* state, and what C02 / C06 state about the result.  Checked by TLC over  *)
(* every seat-manager state reachable by play (TablePositionsMC) and, as   *)
(* conformance, against every opened snapshot of the real engine           *)
(* (TableTrace).                                                           *)
(***************************************************************************)
EXTENDS SeatManagerProps

InSeats(st, s) == s \in SeatsOf(st)
ActAt(st, s) == InSeats(st, s) /\ Act(st, s)
(* clockwise list of the seats satisfying P, starting at seat `from` (inclusive) *)
SeatsFrom(st, from, P(_, _)) ==
  LET S == {s \in SeatsOf(st) : P(st, s)}
      ord(s) == (s - from + st.n) % st.n
  IN [k \in 1..Cardinality(S) |-> CHOOSE s \in S : Cardinality({u \in S : ord(u) < ord(s)}) = k - 1]

(* ---- calcGamePlayerIndexes (default rule), as seats ---- *)
FakeDealerSeat(st) ==
  LET start == IF ActAt(st, st.sb) THEN st.sb ELSE st.bb
      c == {k \in 1..st.n : Act(st, (start + st.n - k) % st.n)}     \* start-1, start-2, ..., start itself last
  IN IF c = {} THEN -1 ELSE (start + st.n - MinOf(c)) % st.n
GameSeats(st) ==
  IF ActAt(st, st.dealer) THEN SeatsFrom(st, st.dealer, Act)
  ELSE IF FakeDealerSeat(st) = -1 THEN <<>> ELSE SeatsFrom(st, FakeDealerSeat(st), Act)

(* ---- updatePlayerPositions ---- *)
Standard(n) ==
  CASE n = 10 -> <<"dealer", "sb", "bb", "ug", "ug2", "ug3", "mp", "mp2", "hj", "co">>
    [] n = 9 -> <<"dealer", "sb", "bb", "ug", "ug2", "mp", "mp2", "hj", "co">>
    [] n = 8 -> <<"dealer", "sb", "bb", "ug", "ug2", "mp", "hj", "co">>
    [] n = 7 -> <<"dealer", "sb", "bb", "ug", "mp", "hj", "co">>
    [] n = 6 -> <<"dealer", "sb", "bb", "ug", "hj", "co">>
    [] n = 5 -> <<"dealer", "sb", "bb", "ug", "co">>
    [] n = 4 -> <<"dealer", "sb", "bb", "ug">>
    [] n = 3 -> <<"dealer", "sb", "bb">>
    [] OTHER -> <<>>
SlotLabels(n) == IF n = 2 THEN <<{"bb"}, {"dealer", "sb"}>> ELSE [i \in 1..n |-> {Standard(n)[((i + 1) % n) + 1]}]
SlotCount(st) == Cardinality({s \in SeatsOf(st) : s \in {st.dealer, st.sb, st.bb} \/ Act(st, s)})
(* the code's walk: from the bb seat, an active seat takes the next label set; an inactive dealer / sb seat drops the next
   label set only if that set is the dealer's or the small blind's *)
RECURSIVE Walk(_, _, _, _)
Walk(st, k, labs, acc) ==
  IF k = st.n \/ labs = <<>> THEN acc
  ELSE LET s == (st.bb + k) % st.n IN
       IF Act(st, s) THEN Walk(st, k + 1, Tail(labs), [acc EXCEPT ![s] = Head(labs)])
       ELSE IF (Head(labs) \cap {"dealer", "sb"} # {}) /\ s \in {st.dealer, st.sb} THEN Walk(st, k + 1, Tail(labs), acc)
       ELSE Walk(st, k + 1, labs, acc)
CodeLabels(st) == Walk(st, 0, SlotLabels(SlotCount(st)), [s \in SeatsOf(st) |-> {}])

(* ---- the rule as C06 states it ---- *)
SlotSeats(st) == {s \in SeatsOf(st) : s \in {st.dealer, st.sb, st.bb} \/ Act(st, s)}
IsSlot(st, s) == s \in SlotSeats(st)
RuleLabels(st) ==
  LET sq == SeatsFrom(st, st.bb, IsSlot)  n == Len(sq)  lab == SlotLabels(n)
  IN [s \in SeatsOf(st) |-> IF Act(st, s) THEN lab[CHOOSE k \in 1..n : sq[k] = s] ELSE {}]

(* ---- known-finding signatures at this level ---- *)
KF_DealerOnBBState(st) == st.dealer = st.bb /\ st.dealer # st.sb
KF_ActiveBetweenDealerAndSB(st) ==
  st.dealer # st.sb /\ \E s \in SeatsOf(st) : Act(st, s) /\ StrictlyBetween(st.n, st.dealer, st.sb, s)

(* ---- properties of a freshly rotated / initialised default-rule state ---- *)
Fresh(op, res, post) == op \in {"rotate", "init"} /\ res = "ok" /\ post.rule = "default"
Excused(post) == KF_DealerOnBBState(post) \/ KF_ActiveBetweenDealerAndSB(post)
C06_codeLabelsFollowRule(pre, op, res, post) == (Fresh(op, res, post) /\ ~Excused(post)) => CodeLabels(post) = RuleLabels(post)
C06_bbLabelled(pre, op, res, post) == (Fresh(op, res, post) /\ ~Excused(post)) => "bb" \in CodeLabels(post)[post.bb]
C06_disjoint(pre, op, res, post) ==
  Fresh(op, res, post) => \A s, u \in SeatsOf(post) : s # u => CodeLabels(post)[s] \cap CodeLabels(post)[u] = {}
C06_everyDealtInLabelled(pre, op, res, post) == (Fresh(op, res, post) /\ ~Excused(post)) => \A s \in SeatsOf(post) : Act(post, s) <=> CodeLabels(post)[s] # {}
(* the hand engine gets one dealer: whoever holds the dealer label is entry 0 of the hand's list (else entry 0 gets it appended) *)
C06_oneDealer(pre, op, res, post) ==
  (Fresh(op, res, post) /\ ~Excused(post)) =>
    \A s \in SeatsOf(post) : "dealer" \in CodeLabels(post)[s] => (GameSeats(post) # <<>> /\ GameSeats(post)[1] = s)
(* the hand's list: every dealt-in seat once, clockwise *)
C02_listClockwise(pre, op, res, post) ==
  Fresh(op, res, post) =>
    LET g == GameSeats(post) IN
    /\ {g[i] : i \in 1..Len(g)} = ActiveSeats(post) /\ Len(g) = ActiveCount(post)
    /\ \A i \in 1..(Len(g) - 1) : (g[i + 1] - g[1] + post.n) % post.n > (g[i] - g[1] + post.n) % post.n
=============================================================================
