SPECIFICATION Spec
CONSTANTS
 Players = {a, b, c}
 MinP = 2
 MaxHands = 2
 Levels <- LevelsDef
 Quiet = FALSE
 ExtSetUp = TRUE
 WithLeave = FALSE
 KF_OpenAfterClose = FALSE
 KF_GuardOnVisibleOnly = FALSE
KF_SurvivorsOnly = FALSE
KF_RetryUnguarded = TRUE
KF_CloneSwap = FALSE
MaxRetry = 2
INVARIANT C07_OneAtATime
PROPERTIES C07_NoOpenAfterClose C07_GcStep C07_NoOpenOnBreak C12_GameBlindFixed C12_GameBlindAtOpen C08_PauseIff C08_SetUpEnough
CHECK_DEADLOCK FALSE
