----------------------------- MODULE ActorTrace -----------------------------
(***************************************************************************)
(* C18 / C19: real botRunner and playerRunner instances are shown hand      *)
(* states reached by the REAL game backend (every player's point of view,   *)
(* several fresh instances per state for the bot's random draws) through a  *)
(* recording Adapter (vh actors).  One line = one delivery:                 *)
(*   [ev, hand, me, myid, calls : <<kind, amt, playerID, ms>>, early, res,  *)
(*    status, at]    res = what the real backend says to the single call.   *)
(* The oracle is HandProps (BotMoves / LegalMove / AutoMove) over the hand  *)
(* state converted with HandJson.                                           *)
(***************************************************************************)
EXTENDS HandJson, Json, IOUtils
VARIABLE l
Trace == ndJsonDeserialize(IOEnv.TRACE)
Clause(name, ok, tag, k) == ok \/ PrintT(<<"VIOL", name, k, tag>>)

Allowed(t) == RangeOf(t.hand.p[t.me + 1].allowed)
Asked(t) == Allowed(t) # {}
Kinds(calls) == {calls[i][1] : i \in 1..Len(calls)}
PosOf(t) == RangeOf(t.hand.p[t.me + 1].pos)
PaySize(t) == IF t.hand.ev = "AnteRequested" THEN t.hand.ante
              ELSE IF "sb" \in PosOf(t) THEN t.hand.bl[2] ELSE IF "bb" \in PosOf(t) THEN t.hand.bl[3] ELSE t.hand.bl[1]
(* what the conservative auto-play picks *)
AutoChoice(t) == LET al == Allowed(t) IN
  IF "pass" \in al THEN "pass" ELSE IF "ready" \in al THEN "ready" ELSE IF "check" \in al THEN "check"
  ELSE IF "fold" \in al THEN "fold" ELSE IF "pay" \in al THEN "pay" ELSE "none"

CheckLine(k) ==
  LET t == Trace[k]
      s == StripWrapper(ToHand(t.hand))
      one == Len(t.calls) = 1
      c == t.calls[1]
  IN
  /\ t.ev = "botmove" =>
       /\ Clause("C18_oneCallWhenAsked", IF Asked(t) THEN one ELSE t.calls = <<>>, "", k)
       /\ one =>
            /\ Clause("C18_forItself", c[3] = t.myid, "", k)
            /\ Clause("C18_allowedKind", c[1] \in Allowed(t), "", k)
            /\ Clause("C18_accepted", t.res = "ok", "", k)
            /\ Clause("C18_paySize", c[1] = "pay" => c[2] = PaySize(t), "", k)
            /\ Clause("C18_legalAmount", (c[1] \in {"bet", "raise"} /\ s.ev = "RoundStarted" /\ s.cur = t.me) => LegalMove(s, t.me, <<c[1], c[2]>>), "", k)
            /\ ((c[1] \in {"ready", "pay"}) \/ s.ev # "RoundStarted" \/ s.cur # t.me \/ <<c[1], IF c[1] \in {"bet", "raise"} THEN c[2] ELSE 0>> \in BotMoves(s, t.me)
                \/ PrintT(<<"DRIFT", k, c[1], c[2]>>))
  /\ t.ev = "botstale" => Clause("C18_silentWhenStale", t.calls = <<>>, "", k)
  /\ t.ev = "autoplay" =>
       /\ Clause("C19_neverVolunteers", Kinds(t.calls) \cap {"call", "bet", "raise", "allin"} = {}, "", k)
       /\ Clause("C19_actsWhenAsked", IF Asked(t) THEN one ELSE t.calls = <<>>, "", k)
       /\ one =>
            /\ Clause("C19_forItself", c[3] = t.myid, "", k)
            /\ Clause("C19_conservativeChoice", c[1] = AutoChoice(t), "", k)
            /\ Clause("C19_passOnlyIfOnlyOption", c[1] = "pass" => Allowed(t) = {"pass"}, "", k)
            /\ Clause("C19_paySize", c[1] = "pay" => c[2] = PaySize(t), "", k)
            /\ Clause("C19_accepted", t.res = "ok", "", k)
            /\ Clause("C19_notBeforeTime",
                      (t.at >= 1 /\ t.status \in {"running", "idle"} /\ c[1] # "pass") => (c[4] >= t.at * 1000 - 60), "", k)
ReaskLine(k) ==
  LET t == Trace[k] IN
  t.ev = "autoplay2" =>
    /\ Clause("C19_neverVolunteers", \A i \in 2..Len(t.calls) : t.calls[i][1] \notin {"call", "bet", "raise", "allin"}, "", k)
    /\ Clause("C19_reaskActs", Len(t.calls) = 2, "", k)
    /\ Len(t.calls) >= 2 => Clause("C19_notBeforeTime", t.calls[2][4] >= t.reask + t.at * 1000 - 60, "", k)
Init == l = 1
Next == l <= Len(Trace) /\ l' = l + 1
Spec == Init /\ [][Next]_l
Verdict == l > Len(Trace) \/ (CheckLine(l) /\ ReaskLine(l))
Done == TLCGet("stats").diameter = Len(Trace) + 1 \/ PrintT(<<"INCOMPLETE", TLCGet("stats").diameter, Len(Trace)>>)
=============================================================================
