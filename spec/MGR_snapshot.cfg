SPECIFICATION Spec
CONSTANTS
 Ids = {"t1", "t2", "t3"}
 MaxCalls = 5
 SnapshotDelete = TRUE
INVARIANTS I_LiveFound I_GoneNotFound
PROPERTIES A_ResultByRegistry A_Isolation
CHECK_DEADLOCK FALSE
