----------------------------- MODULE RegistryOps -----------------------------
(* the manager's registry id -> engine as a function, shared by ManagerReg (exhaustive model) and ManagerTrace (calls
   recorded from the real manager) *)
EXTENDS Integers, Sequences, FiniteSets, TLC
Empty == [i \in {} |-> 0]
Put(r, id, e) == [i \in DOMAIN r \cup {id} |-> IF i = id THEN e ELSE r[i]]
Del(r, id) == [i \in DOMAIN r \ {id} |-> r[i]]
Found(r, id) == id \in DOMAIN r
(* the registry after a close / release that looked the table up in snap and found it; snapshotDelete is the named deviation
   "publish the snapshot taken at the look-up minus the id" *)
AfterRemove(r, snap, id, snapshotDelete) == IF snapshotDelete THEN Del(snap, id) ELSE Del(r, id)
=============================================================================
