SPECIFICATION Spec
CONSTANTS
 Ids = {t1, t2, t3}
 Ops = {reserve, join, bet, pause}
 MaxLen = 2
PROPERTIES Isolation NotFoundIff ForwardEffect
CHECK_DEADLOCK FALSE
