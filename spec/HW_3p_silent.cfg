SPECIFICATION Spec
CONSTANTS
 StacksC <- S3
 LabelsC <- Std3
 AnteC = 1
 DealerBC = 0
 SBC = 1
 BBC = 2
 MaxFaults = 0
 Silent <- Silent1
INVARIANTS C11_AskedSets QueueEndsWithLatest RoundClosedIsLatest C13_ErrReported I_Conserved I_NonNegative I_NoStall
PROPERTIES C11_NoEarlyAdvance C11_SilentNeedsTimeout C10_OnlyMover PubInOrder C13_FaultChangesNothing L_Finishes
VIEW V
CHECK_DEADLOCK FALSE
