----------------------------- MODULE TableLife -----------------------------
(***************************************************************************)
(* Life cycle of one table (table_engine_stage.go, table_engine.go):       *)
(* status, hand counter, the open-game gate, the asynchronous pieces       *)
(*   - gate callback  -> tableGameOpen (its own goroutine, takes te.lock)  *)
(*   - game updater   -> Publish of the first hand state, settle, reset    *)
(*   - continue timer -> ContinueFire                                      *)
(* and the unlocked external calls (UpdateBlind, Pause, Close, Release,    *)
(* SetUp, settlement-finished signals, joins / re-buys) that may land      *)
(* between any two of them.  The betting of a hand is abstracted to        *)
(* "some non-empty set of participants keeps chips".                       *)
(*                                                                         *)
(* The three guards that this task's fix: commits added are switchable     *)
(* (KF_* = TRUE gives the pinned behaviour) so TLC shows the counter-      *)
(* examples that the gated schedules of vh table replay on the real code.  *)
(***************************************************************************)
EXTENDS Integers, FiniteSets, TLC
CONSTANTS Players, MinP, MaxHands, Levels, MaxRetry,
          Quiet,                 \* TRUE: no external control call at all (liveness runs)
          WithLeave,             \* TRUE: players may leave between hands (multiplies the state space; own configuration)
          ExtSetUp,              \* TRUE: the competition layer may call SetUpTableGame at any time (safety runs); FALSE: only for the first hand

          KF_OpenAfterClose,     \* pinned: tableGameOpen had no closed/released guard
          KF_GuardOnVisibleOnly, \* pinned: "a hand is running" judged only by the published hand state
          KF_SurvivorsOnly,      \* pinned: next set-up awaited only survivors of the last hand
          KF_RetryUnguarded,     \* pinned: the retry loop of tableGameOpen re-checked only "a hand is running", not closed / released
          KF_CloneSwap           \* the code as it is (recorded findings KF-C12-lost-update, KF-open-window-overwrite): the hand is
                                 \* prepared on a clone of the table and swapped in later; lock-free calls in between are overwritten

VARIABLES status, gc, hand, gblind, blind, released, gate, opens, cont, chips, inn, dealt,
          survivors, ext, closedBetween, opened2,  \* survivors: who kept chips in the last hand; the rest are ghosts
          retry,                                   \* > 0: tableGameOpen sleeps between attempts WITH te.lock held (attempts left)
          win                                      \* the clone tableGameOpen is working on (KF_CloneSwap), or NoWin
vars == <<status, gc, hand, gblind, blind, released, gate, opens, cont, chips, inn, dealt, survivors, ext, closedBetween, opened2, retry, win>>

(* hand: "none" | "unpublished" (opened, first state not yet published) | "live" (published) *)
Running == {"opened", "playing", "settled"}
NoGate == [armed |-> FALSE, gc |-> 0, parts |-> {}, sig |-> {}]
NoWin == [on |-> FALSE]
AliveIn == {p \in Players : chips[p] /\ inn[p]}
Alive == {p \in Players : chips[p]}
IsBreak == blind = -1
IsSet == blind # 0

Init == /\ status = "created" /\ gc = 0 /\ hand = "none" /\ gblind = 0 /\ blind \in Levels \ {-1}
        /\ released = FALSE /\ gate = NoGate /\ opens = 0 /\ cont = FALSE
        /\ chips = [p \in Players |-> TRUE] /\ inn \in (IF Quiet THEN {[p \in Players |-> TRUE]} ELSE [Players -> BOOLEAN]) /\ dealt = {}
        /\ survivors = {} /\ ext = FALSE /\ closedBetween = FALSE /\ opened2 = FALSE /\ retry = 0 /\ win = NoWin

(* ---- external calls (none of them takes te.lock) ---------------------- *)
SetUp(P) == /\ gate' = [armed |-> TRUE, gc |-> gc + 1, parts |-> P, sig |-> {}]
            /\ UNCHANGED <<status, gc, hand, gblind, blind, released, opens, cont, chips, inn, dealt, survivors, ext, closedBetween, opened2, retry, win>>
Finish(p) == /\ gate.armed /\ p \in gate.parts /\ inn[p]
             /\ gate' = [gate EXCEPT !.sig = @ \cup {p}]
             /\ UNCHANGED <<status, gc, hand, gblind, blind, released, opens, cont, chips, inn, dealt, survivors, ext, closedBetween, opened2, retry, win>>
UpdateBlind(l) == /\ blind' = l
                  /\ UNCHANGED <<status, gc, hand, gblind, released, gate, opens, cont, chips, inn, dealt, survivors, ext, closedBetween, opened2, retry, win>>
Pause == /\ status' = "pausing" /\ ext' = TRUE
         /\ UNCHANGED <<gc, hand, gblind, blind, released, gate, opens, cont, chips, inn, dealt, survivors, closedBetween, opened2, retry, win>>
Close == /\ status' = "closed" /\ released' = TRUE /\ ext' = TRUE /\ closedBetween' = (closedBetween \/ hand = "none")
         /\ UNCHANGED <<gc, hand, gblind, blind, gate, opens, cont, chips, inn, dealt, survivors, opened2, retry, win>>
Release == /\ released' = TRUE /\ ext' = TRUE /\ closedBetween' = (closedBetween \/ hand = "none")
           /\ UNCHANGED <<status, gc, hand, gblind, blind, gate, opens, cont, chips, inn, dealt, survivors, opened2, retry, win>>
Rebuy(p) == /\ ~chips[p] /\ chips' = [chips EXCEPT ![p] = TRUE]
            /\ UNCHANGED <<status, gc, hand, gblind, blind, released, gate, opens, cont, inn, dealt, survivors, ext, closedBetween, opened2, retry, win>>
SitIn(p) == /\ ~inn[p] /\ inn' = [inn EXCEPT ![p] = TRUE]
            /\ UNCHANGED <<status, gc, hand, gblind, blind, released, gate, opens, cont, chips, dealt, survivors, ext, closedBetween, opened2, retry, win>>

(* PlayersLeave takes te.lock (it waits while tableGameOpen holds it); a participant of the running hand is left alone
   here (that case is the recorded finding KF-midhand-leave) *)
Leave(p) == /\ retry = 0 /\ ~win.on /\ (chips[p] \/ inn[p]) /\ p \notin dealt
            /\ chips' = [chips EXCEPT ![p] = FALSE] /\ inn' = [inn EXCEPT ![p] = FALSE]
            /\ UNCHANGED <<status, gc, hand, gblind, blind, released, gate, opens, cont, dealt, survivors, ext, closedBetween, opened2, retry, win>>

(* ---- the gate (abstract: all signalled, or its 2 s timeout) ------------ *)
GateFire == /\ gate.armed /\ opens < 2      \* (bound of the model: at most two callbacks in flight)
            /\ gate' = [gate EXCEPT !.armed = FALSE]
            /\ opens' = IF Cardinality(gate.parts) > 1 THEN opens + 1 ELSE opens
            /\ UNCHANGED <<status, gc, hand, gblind, blind, released, cont, chips, inn, dealt, survivors, ext, closedBetween, opened2, retry, win>>

(* ---- tableGameOpen: one critical section under te.lock ------------------ *)
OpenGuardsPass ==
  /\ (KF_OpenAfterClose \/ ~(released \/ status = "closed"))
  /\ hand # "live"
  /\ (KF_GuardOnVisibleOnly \/ (status \notin Running /\ hand = "none"))   \* hand # "none" <=> the hand's player list is non-empty
(* openGame: "not set" and "the seat manager cannot place two players" are the retryable failure, a break is final *)
Retryable == ~IsSet \/ (~IsBreak /\ Cardinality(AliveIn) < 2)
OpenSucceeds == IsSet /\ ~IsBreak /\ Cardinality(AliveIn) >= 2 /\ gc < MaxHands   \* (gc < MaxHands: bound of the model)
DoOpen == /\ status' = "playing" /\ gc' = gc + 1 /\ hand' = "unpublished" /\ gblind' = blind /\ dealt' = AliveIn
          /\ opened2' = (opened2 \/ hand # "none")
          /\ UNCHANGED <<blind, released, gate, cont, chips, inn, survivors, ext, closedBetween, win>>
NoOpen == UNCHANGED <<status, gc, hand, gblind, blind, released, gate, cont, chips, inn, dealt, survivors, ext, closedBetween, opened2>>
(* the open succeeds: at once (the design), or on a clone that is swapped in by a later step (the code) *)
OpenOrClone == IF KF_CloneSwap
               THEN NoOpen /\ win' = [on |-> TRUE, blind |-> blind, chips |-> chips, inn |-> inn, alive |-> AliveIn]
               ELSE DoOpen
TableGameOpen ==
  /\ retry = 0 /\ ~win.on /\ opens > 0 /\ opens' = opens - 1
  /\ IF OpenGuardsPass /\ OpenSucceeds THEN OpenOrClone /\ retry' = 0
     ELSE IF OpenGuardsPass /\ Retryable THEN NoOpen /\ retry' = MaxRetry /\ UNCHANGED win     \* sleeps 3 s, lock held
     ELSE NoOpen /\ retry' = 0 /\ UNCHANGED win
(* one turn of the retry loop, after its sleep.  te.lock is held all the while, which keeps out other gate callbacks,
   PlayerReserve / PlayersLeave / UpdateTablePlayers and the players' game actions -- but UpdateBlind, Pause, Close,
   Release, SetUp, the settlement signals, PlayerJoin and PlayerRedeemChips take no lock and may have landed *)
OpenRetry ==
  /\ retry > 0 /\ ~win.on /\ UNCHANGED opens
  /\ IF status \in Running THEN NoOpen /\ retry' = 0 /\ UNCHANGED win
     ELSE IF ~KF_RetryUnguarded /\ (released \/ status = "closed") THEN NoOpen /\ retry' = 0 /\ UNCHANGED win
     ELSE IF OpenSucceeds THEN OpenOrClone /\ retry' = 0
     ELSE IF Retryable THEN NoOpen /\ retry' = retry - 1 /\ UNCHANGED win
     ELSE NoOpen /\ retry' = 0 /\ UNCHANGED win
(* te.table = clone: whatever the lock-free calls wrote to the table since the clone was taken is gone (status, blind
   level, chips, sit-ins); the released flag lives in the engine, not in the table, and survives *)
OpenSwap ==
  /\ win.on /\ win' = NoWin
  /\ status' = "playing" /\ gc' = gc + 1 /\ hand' = "unpublished" /\ gblind' = win.blind /\ blind' = win.blind
  /\ chips' = win.chips /\ inn' = win.inn /\ dealt' = win.alive /\ opened2' = (opened2 \/ hand # "none")
  /\ UNCHANGED <<released, gate, opens, cont, survivors, ext, closedBetween, retry>>

(* ---- updater goroutine --------------------------------------------------- *)
Publish == /\ hand = "unpublished" /\ hand' = "live"
           /\ UNCHANGED <<status, gc, gblind, blind, released, gate, opens, cont, chips, inn, dealt, survivors, ext, closedBetween, opened2, retry, win>>
(* settleGame + continueGame's reset run back to back in the updater *)
SettleAndReset(keep) ==
  /\ hand = "live" /\ keep # {} /\ keep \subseteq dealt
  /\ chips' = [p \in Players |-> IF p \in dealt THEN p \in keep ELSE chips[p]]
  /\ status' = "standby" /\ hand' = "none" /\ cont' = TRUE /\ dealt' = {} /\ survivors' = keep
  /\ UNCHANGED <<gc, gblind, blind, released, gate, opens, inn, ext, closedBetween, opened2, retry, win>>
ContinueFire ==
  /\ cont /\ cont' = FALSE
  /\ IF status = "closed" \/ released THEN UNCHANGED <<status, gate>>
     ELSE IF IsBreak \/ Cardinality(Alive) < MinP THEN status' = "pausing" /\ UNCHANGED gate
     ELSE IF status = "standby"
          THEN /\ gate' = [armed |-> TRUE, gc |-> gc + 1, sig |-> {},
                           parts |-> IF KF_SurvivorsOnly THEN survivors ELSE AliveIn]
               /\ UNCHANGED status
          ELSE UNCHANGED <<status, gate>>
  /\ UNCHANGED <<gc, hand, gblind, blind, released, opens, chips, inn, dealt, survivors, ext, closedBetween, opened2, retry, win>>

Next ==
  \/ gc < MaxHands /\ (ExtSetUp \/ (gc = 0 /\ status = "created" /\ ~gate.armed /\ opens = 0)) /\ \E P \in SUBSET Players : SetUp(P)
  \/ \E p \in Players : (~Quiet /\ Finish(p)) \/ Rebuy(p) \/ (~Quiet /\ SitIn(p)) \/ (~Quiet /\ WithLeave /\ Leave(p))
  \/ ~Quiet /\ \E l \in Levels : UpdateBlind(l)
  \/ ~Quiet /\ (Pause \/ Close \/ Release)
  \/ GateFire \/ TableGameOpen \/ OpenRetry \/ OpenSwap \/ Publish \/ ContinueFire
  \/ \E keep \in SUBSET Players : SettleAndReset(keep)
Internal == GateFire \/ TableGameOpen \/ OpenRetry \/ OpenSwap \/ Publish \/ ContinueFire \/ \E keep \in SUBSET Players : SettleAndReset(keep)
Spec == Init /\ [][Next]_vars /\ WF_vars(Internal)

(* ---- property layer (C07, C08, C12 as stated for the model) ------------- *)
C07_OneAtATime == ~opened2
C07_NoOpenAfterClose == [][(gc' # gc) => ~closedBetween]_vars
C07_GcStep == [][(gc' # gc) => (gc' = gc + 1 /\ hand' = "unpublished")]_vars
C07_NoOpenOnBreak == [][(gc' # gc) => (blind # -1 /\ blind # 0)]_vars
C12_GameBlindFixed == [][(hand # "none" /\ hand' # "none" /\ gc' = gc) => gblind' = gblind]_vars
C12_GameBlindAtOpen == [][(gc' # gc) => gblind' = blind]_vars
(* C01 (as far as this model sees chips): a stack is only ever emptied by the settlement of a hand; C03/C05: a sit-in is never undone *)
C01_ChipsOnlyLostAtSettle == [][\A p \in Players : (chips[p] /\ ~chips'[p] /\ inn'[p]) => hand = "live"]_vars     \* (inn' false: he left)
C03_SitInSticks == [][\A p \in Players : (inn[p] /\ chips'[p]) => inn'[p]]_vars
C08_PauseIff == [][(cont /\ ~cont' /\ ~ext /\ status = "standby") =>
                     ((status' = "pausing") <=> (blind = -1 \/ Cardinality(Alive) < MinP))]_vars
C08_SetUpEnough == [][(cont /\ ~cont' /\ ~ext /\ status = "standby" /\ status' = "standby" /\ Cardinality(AliveIn) >= 2)
                       => Cardinality(gate'.parts) >= 2]_vars
(* once the handler has set up the next hand for >= 2 seated-in players with chips and nothing external interferes,
   a hand opens (all signalled or the gate's own timeout -- both are GateFire here)                                   *)
C08_Opens == [](( ~ext /\ gate.armed /\ status = "standby" /\ Cardinality(gate.parts) >= 2 /\ Cardinality(AliveIn) >= 2
                 /\ blind # -1 /\ blind # 0 /\ gc < MaxHands)
                ~> (status # "standby" \/ ext \/ blind \in {-1, 0} \/ Cardinality(AliveIn) < 2))
LevelsDef == {-1, 0, 1, 2}
LevelsSmall == {-1, 1}
View == <<status, gc, hand, gblind, blind, released, gate, opens, cont, chips, inn, dealt, survivors, ext, closedBetween, opened2, retry, win>>
=============================================================================
