------------------------------ MODULE OpenGame ------------------------------
(***************************************************************************)
(* Goroutine-level model of open_game_manager over syncsaga.ReadyGroup:    *)
(* Setup is three steps (stop the old group / fill participants / start),  *)
(* every started group has its own channel and consumer goroutine (a       *)
(* closed channel still delivers what was buffered), Done spawns the       *)
(* completion callback as its own goroutine, the timeout handler enqueues  *)
(* a signal for everybody not ready.                                       *)
(* FreshRG = FALSE is the pinned code (one ready group object re-armed by  *)
(* every set-up): TLC finds the stale-signal and late-completion firings.  *)
(* FreshRG = TRUE is the repaired code (a new ready group per set-up and a *)
(* completion that checks it still belongs to the current one): the        *)
(* abstract-gate properties hold.                                          *)
(***************************************************************************)
EXTENDS Integers, Sequences, FiniteSets, TLC
CONSTANTS Ids, MaxSetups, MaxSignals, FreshRG
\* FreshRG = TRUE models the candidate repair: a new ReadyGroup (participants map, completed flag) per set-up
VARIABLES gc, stParts, rg, completed, chans, cur, timer, spawned, pc, toAdd, fired,
          epoch, signalled, timedOut, firedInEpoch, nsig, rgGen
vars == <<gc, stParts, rg, completed, chans, cur, timer, spawned, pc, toAdd, fired,
          epoch, signalled, timedOut, firedInEpoch, nsig, rgGen>>
Idx(id) == CHOOSE n \in 1..Cardinality(Ids) : TRUE \* placeholder, replaced below
IdxOf == CHOOSE f \in [Ids -> 1..Cardinality(Ids)] : \A a, b \in Ids : a # b => f[a] # f[b]

Init == /\ gc = 0 /\ stParts = [i \in {} |-> FALSE] /\ rg = [i \in {} |-> FALSE]
        /\ completed = FALSE /\ chans = <<>> /\ cur = 0 /\ timer = FALSE /\ spawned = <<>>
        /\ pc = "idle" /\ toAdd = {} /\ fired = <<>> /\ epoch = 0 /\ signalled = {}
        /\ timedOut = FALSE /\ firedInEpoch = 0 /\ nsig = 0 /\ rgGen = 0

\* rg generation: each channel remembers which rg generation its consumer writes to.
\* Without FreshRG there is a single shared rg (generation ignored).
SetupBegin(P) ==
  /\ pc = "idle" /\ epoch < MaxSetups /\ P # {}
  /\ gc' = gc + 1
  /\ completed' = FALSE
  /\ chans' = IF cur = 0 THEN chans ELSE [chans EXCEPT ![cur].closed = TRUE]
  /\ cur' = 0 /\ timer' = FALSE
  /\ rg' = [i \in {} |-> FALSE] /\ stParts' = [i \in {} |-> FALSE]
  /\ toAdd' = P /\ pc' = "fill" /\ rgGen' = rgGen + 1
  /\ UNCHANGED <<spawned, fired, epoch, signalled, timedOut, firedInEpoch, nsig>>
SetupAdd(id) ==
  /\ pc = "fill" /\ id \in toAdd
  /\ rg' = [i \in DOMAIN rg \cup {IdxOf[id]} |-> IF i = IdxOf[id] THEN FALSE ELSE rg[i]]
  /\ stParts' = [i \in DOMAIN stParts \cup {id} |-> IF i = id THEN FALSE ELSE stParts[i]]
  /\ toAdd' = toAdd \ {id}
  /\ UNCHANGED <<gc, completed, chans, cur, timer, spawned, pc, fired, epoch, signalled, timedOut, firedInEpoch, nsig, rgGen>>
SetupStart ==
  /\ pc = "fill" /\ toAdd = {}
  /\ completed' = FALSE
  /\ chans' = Append(chans, [q |-> <<>>, closed |-> FALSE, gen |-> rgGen])
  /\ cur' = Len(chans) + 1 /\ timer' = TRUE /\ pc' = "idle"
  /\ epoch' = epoch + 1 /\ signalled' = {} /\ timedOut' = FALSE /\ firedInEpoch' = 0
  /\ UNCHANGED <<gc, stParts, rg, spawned, toAdd, fired, nsig, rgGen>>
ReadyOK(id) ==
  /\ pc = "idle" /\ id \in DOMAIN stParts /\ nsig < MaxSignals /\ nsig' = nsig + 1
  /\ chans' = IF cur = 0 THEN chans ELSE [chans EXCEPT ![cur].q = Append(@, IdxOf[id])]
  /\ stParts' = [stParts EXCEPT ![id] = TRUE]
  /\ signalled' = signalled \cup {id}
  /\ UNCHANGED <<gc, rg, completed, cur, timer, spawned, pc, toAdd, fired, epoch, timedOut, firedInEpoch, rgGen>>
Consume(k) ==
  /\ k \in 1..Len(chans) /\ chans[k].q # <<>>
  /\ LET i == Head(chans[k].q)
         stale == FreshRG /\ chans[k].gen # rgGen   \* with a fresh rg per set-up a stale consumer touches a dead object
         rg1 == IF ~stale /\ i \in DOMAIN rg THEN [rg EXCEPT ![i] = TRUE] ELSE rg
         allr == \A j \in DOMAIN rg1 : rg1[j]
     IN /\ chans' = [chans EXCEPT ![k].q = Tail(@)]
        /\ rg' = rg1
        /\ IF ~stale /\ allr /\ ~completed
           THEN /\ completed' = TRUE /\ timer' = FALSE /\ spawned' = Append(spawned, rgGen)
           ELSE UNCHANGED <<completed, timer, spawned, rgGen>>
  /\ UNCHANGED <<gc, stParts, cur, pc, toAdd, fired, epoch, signalled, timedOut, firedInEpoch, nsig, rgGen>>
RunCompleted ==
  /\ spawned # <<>>
  /\ spawned' = Tail(spawned)
  /\ (FreshRG => pc = "idle")     \* the repaired completion takes the gate's mutex, which a set-up in progress holds
  /\ IF FreshRG /\ Head(spawned) # rgGen THEN UNCHANGED <<stParts, fired, firedInEpoch, rgGen>>
     ELSE /\ stParts' = [i \in DOMAIN stParts |-> TRUE]
          /\ fired' = Append(fired, [gc |-> gc, legal |-> (pc = "idle" /\ firedInEpoch = 0 /\ (DOMAIN stParts \subseteq signalled \/ timedOut))])
          /\ firedInEpoch' = firedInEpoch + 1
  /\ UNCHANGED <<gc, rg, completed, chans, cur, timer, pc, toAdd, epoch, signalled, timedOut, nsig, rgGen>>
TimerFire ==
  /\ timer /\ pc = "idle" /\ timer' = FALSE /\ timedOut' = TRUE
  /\ LET nr == {i \in DOMAIN rg : ~rg[i]}
         SeqOf(S) == CHOOSE sq \in [1..Cardinality(S) -> S] : \A a, b \in 1..Cardinality(S) : a # b => sq[a] # sq[b]
     IN chans' = IF cur = 0 \/ nr = {} THEN chans ELSE [chans EXCEPT ![cur].q = @ \o SeqOf(nr)]
  /\ UNCHANGED <<gc, stParts, rg, completed, cur, spawned, pc, toAdd, fired, epoch, signalled, firedInEpoch, nsig, rgGen>>
Next == \/ \E P \in SUBSET Ids : SetupBegin(P)
        \/ \E id \in Ids : SetupAdd(id) \/ ReadyOK(id)
        \/ SetupStart \/ RunCompleted \/ TimerFire
        \/ \E k \in 1..3 : Consume(k)
Spec == Init /\ [][Next]_vars
AllFiresLegal == \A n \in 1..Len(fired) : fired[n].legal
AtMostOncePerSetup == firedInEpoch <= 1
====
