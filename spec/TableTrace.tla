----------------------------- MODULE TableTrace -----------------------------
(***************************************************************************)
(* Verdict run over traces recorded from the REAL table engine (vh table). *)
(*                                                                         *)
(* One line = one observation, in recorder order:                          *)
(*   ret:<Method>  a public call returned (a = arguments, res = result,    *)
(*                 pre = projected state before the call, st = after)      *)
(*   q             the engine has become quiescent (st = settled state)    *)
(*   cb:updated / cb:state / cb:action / cb:error   engine callbacks       *)
(*   hook          a verif hook point was passed (a.kind = point)          *)
(*   spy           a game-backend call (a.kind, res ok/fail, options)      *)
(*   noopen / stuck / idle / withhold / withheld / parked / released / end *)
(*                                                                         *)
(* The property layer for C01-C03, C05-C08, C10-C12, C14, C15 is evaluated *)
(* on every line with ghost accumulators carried in g.  A failing clause   *)
(* prints <<"VIOL", clause, line, tag>>; tag names a known-finding         *)
(* signature when the failing situation matches one exactly.               *)
(***************************************************************************)
EXTENDS Integers, Sequences, FiniteSets, TLC, Json, IOUtils, TableMembers, TablePositions, HandJson

VARIABLES l, g
Trace == ndJsonDeserialize(IOEnv.TRACE)

\* ---------------------------------------------------------------- helpers
Range(s) == {s[i] : i \in 1..Len(s)}
SeqSum(s) == LET RECURSIVE F(_) F(k) == IF k = 0 THEN 0 ELSE s[k] + F(k - 1) IN F(Len(s))
IsPrefixStr(ev, p) == ev \in p
RetEvs == {"ret:PlayerReserve", "ret:PlayerJoin", "ret:PlayerRedeemChips", "ret:PlayersLeave", "ret:UpdateTablePlayers",
           "ret:PlayerSettlementFinish", "ret:StartTableGame", "ret:SetUpTableGame", "ret:UpdateBlind", "ret:PauseTable",
           "ret:CloseTable", "ret:ReleaseTable", "ret:PlayerExtendActionDeadline", "ret:CreateTable",
           "ret:PlayerReady", "ret:PlayerPay", "ret:PlayerFold", "ret:PlayerCheck", "ret:PlayerCall", "ret:PlayerAllin",
           "ret:PlayerBet", "ret:PlayerRaise", "ret:PlayerPass"}
ActEvs == {"ret:PlayerReady", "ret:PlayerPay", "ret:PlayerFold", "ret:PlayerCheck", "ret:PlayerCall", "ret:PlayerAllin",
           "ret:PlayerBet", "ret:PlayerRaise", "ret:PlayerPass"}
MemberEvs == {"ret:PlayerReserve", "ret:PlayerJoin", "ret:PlayerRedeemChips", "ret:PlayersLeave", "ret:UpdateTablePlayers"}
WagerKinds == {"fold", "check", "call", "bet", "raise", "allin"}
IsRet(t) == t.ev \in RetEvs
\* lines whose st was projected by the goroutine that made the change, or at quiescence
Trusty(t) == t.ev \in {"cb:updated", "cb:state", "q", "hook", "end", "noopen", "withhold", "withheld", "parked"} /\ t.st.status \notin {"none", "projection-panic"}
HandStatuses == {"table_game_opened", "table_game_playing", "table_game_settled"}

Ids(st) == {st.players[i].id : i \in 1..Len(st.players)}
PIdx(st, id) == CHOOSE i \in 1..Len(st.players) : st.players[i].id = id
P(st, id) == st.players[PIdx(st, id)]
BankOf(st, id) == IF id \in Ids(st) THEN P(st, id).bank ELSE 0
Banks(st) == [id \in Ids(st) |-> P(st, id).bank]
TotalBank(st) == SeqSum([i \in 1..Len(st.players) |-> st.players[i].bank])
PartIds(st) == {st.players[i].id : i \in {j \in 1..Len(st.players) : st.players[j].part}}
HasHand(st) == Len(st.hand) = 1
H(st) == st.hand[1]
GpiIds(st) == [i \in 1..Len(st.gpi) |->
                 IF st.gpi[i] >= 0 /\ st.gpi[i] < Len(st.players) THEN st.players[st.gpi[i] + 1].id ELSE "?"]
SmSeat(st, s) == LET a == st.sm.seat[s + 1] IN [id |-> a[1], in |-> a[2], btw |-> a[3], chips |-> a[4]]
SmOf(st) == [n |-> st.nseat, rule |-> IF st.rule = "short_deck" THEN "short_deck" ELSE "default",
             seat |-> [s \in 0..(st.nseat - 1) |-> SmSeat(st, s)],
             dealer |-> st.sm.dealer, sb |-> st.sm.sb, bb |-> st.sm.bb, inited |-> st.sm.inited]
SmBtw(st, id) == \E s \in 0..(st.nseat - 1) : SmSeat(st, s).id = id /\ SmSeat(st, s).btw
BlindIsSet(b) == Len(b) = 5 /\ b[1] # 0 /\ b[2] # -1 /\ b[3] # -1 /\ b[4] # -1 /\ b[5] # -1
BlindIsBreak(b) == Len(b) = 5 /\ b[1] = -1
AliveInIds(st) == {st.players[i].id : i \in {j \in 1..Len(st.players) : st.players[j].in /\ st.players[j].bank > 0}}
AliveIds(st) == {st.players[i].id : i \in {j \in 1..Len(st.players) : st.players[j].bank > 0}}

IsOpenSnap(t) == t.ev = "cb:updated" /\ t.st.status = "table_game_opened" /\ ~HasHand(t.st)
IsSettledSnap(t) == t.ev = "cb:updated" /\ t.st.status = "table_game_settled" /\ HasHand(t.st) /\ H(t.st).ev = "GameClosed"

Clause(name, ok, tag, k) == ok \/ PrintT(<<"VIOL", name, k, tag>>)

\* ---------------------------------------------------------------- ghosts
G0 == [tr |-> -1, brought |-> 0, taken |-> 0, banks |-> <<>>, bankIds |-> {}, lastGc |-> 0, gids |-> {}, handLive |-> FALSE,
       handIds |-> <<>>, openBank |-> <<>>, openBlind |-> <<>>, openLabels |-> <<>>, lastParts |-> {}, afterBank |-> <<>>, afterIds |-> {},
       missed |-> <<>>, missedIds |-> {}, ext |-> FALSE, extSetup |-> FALSE, openWin |-> {}, botCalls |-> {}, leavePending |-> {}, awaitFire |-> FALSE, blindSinceFire |-> FALSE, ansIds |-> {}, prevAns |-> {}, earlyAns |-> {}, heldAnswered |-> FALSE, closedBetween |-> FALSE, lastStatus |-> "none",
       cnt |-> <<>>, cntIds |-> {}, actEvents |-> <<>>, spyCalls |-> <<>>, inGate |-> "", blindSet |-> <<>>, blindSetInGate |-> FALSE, blindInOpenWin |-> FALSE, createSeen |-> TRUE, createBlind |-> <<>>,
       leftSince |-> {}, faults |-> 0, lastUpd |-> 0, kfMidLeave |-> FALSE,
       withholdSt |-> <<>>, settledSt |-> <<>>, openSt |-> <<>>, callQ |-> <<>>, pubH |-> <<>>, nospy |-> FALSE, ownTid |-> "", engineHand |-> <<>>, engineStatus |-> "none", lastGcSeen |-> 0, enginePlayers |-> 0, autoFails |-> 0, errEvents |-> 0, autoOwed |-> 0, afterFire |-> FALSE, fireSt |-> <<>>]

Fn(f, ids, x, d) == IF x \in ids THEN f[x] ELSE d
ZeroCnt == [at |-> 0, ct |-> 0, kt |-> 0, fold |-> FALSE, fr |-> ""]

LeaversBank(pre, ids) == SeqSum([i \in 1..Len(ids) |-> IF \A j \in 1..(i - 1) : ids[j] # ids[i] THEN BankOf(pre, ids[i]) ELSE 0])
JoinChips(joins) == SeqSum([i \in 1..Len(joins) |-> joins[i][3]])

\* answers given while the producer of a collection request is parked before handing it to the updater
QueueGates == {"game.queue:ReadyRequested", "game.queue:AnteRequested", "game.queue:BlindsRequested"}
Upd(gg, k) ==
  LET t == Trace[k] IN
  IF t.ev = "scenario" THEN [G0 EXCEPT !.tr = t.tr, !.nospy = (t.a.kind = "manager")]
  ELSE
  LET st == t.st
      g1 == \* ---- chips brought in / taken out (C01), from call returns
        IF t.ev = "ret:CreateTable" /\ t.res = "ok" THEN [gg EXCEPT !.brought = JoinChips(t.a.joins), !.ownTid = st.tid]
        ELSE IF t.ev \in {"ret:PlayerReserve", "ret:PlayerRedeemChips"} /\ t.res = "ok" THEN [gg EXCEPT !.brought = @ + t.a.chips]
        \* (a call that waited for the engine lock carries no pre-state: what the leavers took is not known, the ledger is re-based)
        ELSE IF t.ev \in {"ret:PlayersLeave", "ret:UpdateTablePlayers"} /\ t.res = "ok" /\ Len(t.pre) # 1
             THEN [gg EXCEPT !.brought = TotalBank(st) + gg.taken, !.leftSince = @ \cup Range(t.a.ids)]
        ELSE IF t.ev = "ret:PlayersLeave" /\ t.res = "ok" THEN [gg EXCEPT !.taken = @ + LeaversBank(t.pre[1], t.a.ids), !.leftSince = @ \cup Range(t.a.ids)]
        ELSE IF t.ev = "ret:UpdateTablePlayers" /\ t.res = "ok"
             THEN [gg EXCEPT !.taken = @ + LeaversBank(t.pre[1], t.a.ids), !.brought = @ + JoinChips(t.a.joins), !.leftSince = @ \cup Range(t.a.ids)]
        ELSE IF t.ev \in MemberEvs /\ t.res # "ok" /\ Len(t.pre) = 1 /\ TotalBank(t.pre[1]) # TotalBank(st)
             THEN [gg EXCEPT !.brought = TotalBank(st) + gg.taken]      \* a refused call changed the table: judged by C03, ledger re-based
        ELSE gg
      g2 == \* ---- external control requests
        IF t.ev \in {"call:PauseTable", "call:CloseTable", "call:ReleaseTable"}
        THEN [g1 EXCEPT !.ext = TRUE, !.closedBetween = @ \/ (t.ev # "call:PauseTable" /\ ~g1.handLive)]
        ELSE IF g1.inGate = "open.cloned" /\ t.res = "ok" /\ t.ev \in {"ret:PlayerRedeemChips", "ret:PlayerJoin", "ret:CloseTable", "ret:ReleaseTable"}
             THEN [g1 EXCEPT !.openWin = @ \cup {t.ev}, !.ext = @ \/ t.ev \in {"ret:CloseTable", "ret:ReleaseTable"},
                             !.closedBetween = @ \/ (t.ev \in {"ret:CloseTable", "ret:ReleaseTable"} /\ ~g1.handLive)]
        ELSE IF t.ev = "ret:SetUpTableGame" /\ t.res = "ok"    \* the competition layer replaced the engine's own set-up by one that cannot open a hand
             THEN [g1 EXCEPT !.extSetup = @ \/ Cardinality(Range(t.a.ids) \cap AliveInIds(st)) < 2]
        ELSE IF t.ev = "ret:UpdateBlind" /\ t.res = "ok" THEN [g1 EXCEPT !.blindSet = t.a.blind, !.blindSetInGate = (g1.inGate # ""), !.blindSinceFire = TRUE,
                                                                          !.blindInOpenWin = @ \/ (g1.handLive /\ ~g1.createSeen)]
        ELSE IF t.ev = "spy" /\ t.a.kind = "create" /\ t.res = "ok" THEN [g1 EXCEPT !.createSeen = TRUE, !.createBlind = t.a.blind]
        ELSE IF t.ev = "parked" THEN [g1 EXCEPT !.inGate = t.a.kind]
        ELSE IF t.ev = "released" THEN [g1 EXCEPT !.inGate = ""]
        ELSE g1
      g3 == \* ---- accepted game actions (C10, C14), action events, backend calls since the last return
        IF t.ev \in ActEvs THEN
           LET c == Fn(g2.cnt, g2.cntIds, t.a.id, ZeroCnt)
               c2 == IF t.res = "ok" /\ t.a.kind \in WagerKinds
                     THEN [c EXCEPT !.at = @ + 1, !.ct = @ + (IF t.a.kind = "call" THEN 1 ELSE 0), !.kt = @ + (IF t.a.kind = "check" THEN 1 ELSE 0),
                                    !.fold = @ \/ t.a.kind = "fold",
                                    !.fr = IF t.a.kind = "fold" /\ Len(t.pre) = 1 /\ HasHand(t.pre[1]) THEN H(t.pre[1]).round ELSE @]
                     ELSE c
           IN [g2 EXCEPT !.cnt = [id \in g2.cntIds \cup {t.a.id} |-> IF id = t.a.id THEN c2 ELSE g2.cnt[id]],
                         !.cntIds = @ \cup {t.a.id}, !.actEvents = <<>>, !.spyCalls = <<>>,
                         !.ansIds = IF t.res = "ok" /\ t.a.kind \in {"ready", "pay"} /\ g2.inGate \notin QueueGates THEN @ \cup {<<t.a.id, t.a.kind>>} ELSE @,
                         !.earlyAns = IF t.res = "ok" /\ t.a.kind \in {"ready", "pay"} /\ g2.inGate \in QueueGates THEN @ \cup {<<t.a.id, t.a.kind>>} ELSE @]
        ELSE IF IsRet(t) THEN [g2 EXCEPT !.actEvents = <<>>, !.spyCalls = <<>>]
        ELSE IF t.ev = "cb:action" THEN [g2 EXCEPT !.actEvents = Append(@, t.a)]
        ELSE IF t.ev = "spy" THEN [g2 EXCEPT !.spyCalls = Append(@, <<t.a.kind, t.res, t.a.amt>>), !.faults = @ + (IF t.res = "fail" THEN 1 ELSE 0),
                                             !.callQ = IF t.res = "ok" THEN (IF t.a.kind = "create" THEN <<t.a>> ELSE Append(@, t.a)) ELSE @]
        ELSE g2
      g4 == \* ---- hand life cycle seen through trustworthy snapshots
        IF ~Trusty(t) THEN g3
        ELSE
        LET gA == IF IsOpenSnap(t)
                  THEN [g3 EXCEPT !.lastGc = st.gc, !.handLive = TRUE, !.handIds = GpiIds(st), !.openBank = Banks(st),
                                  !.openBlind = st.blind, !.blindInOpenWin = FALSE, !.createSeen = FALSE, !.createBlind = <<>>, !.lastParts = PartIds(st), !.openSt = <<st>>, !.cnt = <<>>, !.cntIds = {}, !.leftSince = {}, !.settledSt = <<>>,
                                  !.kfMidLeave = @ \/ (g3.leavePending \cap Range(GpiIds(st)) # {}),
                                  !.openLabels = [id \in Ids(st) |-> P(st, id).pos], 
                                  !.missed = [id \in Ids(st) |->
                                      IF P(st, id).part \/ ~(P(st, id).in /\ P(st, id).bank > 0) THEN 0
                                      ELSE Fn(g3.missed, g3.missedIds, id, 0) + 1],
                                  !.missedIds = Ids(st)]
                  ELSE IF IsSettledSnap(t)
                  THEN [g3 EXCEPT !.handLive = FALSE, !.afterBank = Banks(st), !.afterIds = Ids(st), !.gids = @ \cup {H(st).gid},
                                  !.settledSt = <<st>>]
                  ELSE g3
            gC == IF HasHand(st) /\ t.ev = "cb:updated"
                  THEN (IF H(st).upd # gA.lastUpd
                        THEN [gA EXCEPT !.lastUpd = H(st).upd, !.pubH = <<StripWrapper(ToHand(H(st)))>>, !.callQ = IF @ = <<>> THEN <<>> ELSE Tail(@),
                                        !.prevAns = gA.earlyAns, !.ansIds = {}, !.earlyAns = {}]
                        ELSE gA)
                  ELSE gA
        IN [gC EXCEPT !.banks = Banks(st), !.bankIds = Ids(st), !.lastStatus = st.status]
      g5 == \* players that left the table lose their waiting counters
        IF t.ev \in {"ret:PlayersLeave", "ret:UpdateTablePlayers"}
        THEN [g4 EXCEPT !.missedIds = IF t.res = "ok" THEN @ \ Range(t.a.ids) ELSE @, !.leavePending = {}]
        ELSE IF t.ev \in {"call:PlayersLeave", "call:UpdateTablePlayers"}      \* (announced before the call: its events come first)
        THEN [g4 EXCEPT !.kfMidLeave = @ \/ (g4.handLive /\ \E id \in Range(t.a.ids) : id \in Range(g4.handIds)),
                        !.leavePending = Range(t.a.ids)]      \* (the call may have to wait for the engine lock while a hand opens)
        ELSE g4
      g6 == IF t.ev = "withhold" THEN [g5 EXCEPT !.withholdSt = <<st>>, !.heldAnswered = (<<t.a.id, t.a.kind>> \in g5.ansIds)]   \* (a repeated answer of an earlier request may already count for this one)
            ELSE IF t.ev = "botcall" /\ t.res = "ok" THEN [g5 EXCEPT !.botCalls = @ \cup {<<t.a.id, t.a.note>>}]
            ELSE g5
      g7 == IF t.ev \in {"q", "end"} THEN [g6 EXCEPT !.settledSt = <<>>] ELSE g6
      g7b == IF t.ev = "spy" /\ t.res = "fail" /\ t.a.kind \in {"readyall", "ante", "blinds", "next", "create"} THEN [g7 EXCEPT !.autoFails = @ + 1, !.autoOwed = @ + 1]
             ELSE IF t.ev = "cb:error" THEN [g7 EXCEPT !.errEvents = @ + 1, !.autoOwed = IF @ > 0 THEN @ - 1 ELSE 0] ELSE g7
      g7c == IF t.ev = "cb:updated" THEN [g7b EXCEPT !.engineHand = st.hand, !.engineStatus = st.status, !.lastGcSeen = st.gc, !.enginePlayers = Len(st.players)] ELSE g7b
      g8 == IF t.ev = "hook" /\ t.a.kind = "continue.fire" THEN [g7c EXCEPT !.afterFire = TRUE, !.fireSt = <<st>>, !.extSetup = FALSE, !.awaitFire = FALSE, !.blindSinceFire = FALSE]
            ELSE IF t.ev = "hook" /\ t.a.kind = "continue.reset" THEN [g7c EXCEPT !.afterFire = FALSE, !.awaitFire = TRUE]
            ELSE IF ~IsRet(t) /\ t.ev \notin {"actorview", "actorsdone"} THEN [g7c EXCEPT !.afterFire = FALSE] ELSE g7c
  IN g8

\* ---------------------------------------------------------------- C03
C03_bijection(st) ==
  /\ Len(st.seatmap) = st.nseat
  /\ \A s \in 1..Len(st.seatmap) : st.seatmap[s] >= 0 =>
        st.seatmap[s] < Len(st.players) /\ st.players[st.seatmap[s] + 1].seat = s - 1
  /\ \A i \in 1..Len(st.players) :
        /\ st.players[i].seat \in 0..(st.nseat - 1)
        /\ st.seatmap[st.players[i].seat + 1] = i - 1
  /\ \A i, j \in 1..Len(st.players) : st.players[i].id = st.players[j].id => i = j
\* pendingOK: the line is the return of a call, not a quiescent point: the table's own auto-sit-in goroutine (PlayerJoin sets
\* the table flag, then tells the seat manager) may be between its two writes
SmAgreeG(st, pendingOK) ==
  /\ Len(st.sm.seat) = st.nseat /\ st.sm.extra = 0
  /\ \A s \in 0..(st.nseat - 1) :
       IF st.seatmap[s + 1] >= 0 /\ st.seatmap[s + 1] < Len(st.players)
       THEN /\ SmSeat(st, s).id = st.players[st.seatmap[s + 1] + 1].id
            /\ \/ SmSeat(st, s).in = st.players[st.seatmap[s + 1] + 1].in
               \/ (pendingOK /\ st.players[st.seatmap[s + 1] + 1].in /\ ~SmSeat(st, s).in)
       ELSE SmSeat(st, s).id = ""
C03_smAgree(st) == SmAgreeG(st, FALSE)
Memb(st) == <<[i \in 1..Len(st.players) |-> <<st.players[i].id, st.players[i].seat, st.players[i].bank, st.players[i].in>>],
              st.seatmap, st.sm.seat>>
C03_errorUnchanged(t) == t.ev \in MemberEvs /\ t.res # "ok" /\ Len(t.pre) = 1 => Memb(t.pre[1]) = Memb(t.st)
C03_reserveAccepted(t) ==
  \* (through a manager, a table that has been released is gone: the refusal is the manager's, judged by the C17 clauses)
  t.ev = "ret:PlayerReserve" /\ Len(t.pre) = 1 /\ t.res # "ErrManagerTableNotFound" =>
    LET pre == t.pre[1] IN
    (/\ t.a.id \notin Ids(pre) /\ Len(pre.players) < pre.nseat /\ C03_bijection(pre) /\ C03_smAgree(pre)
     /\ \/ t.a.seat = -1
        \/ t.a.seat \in 0..(pre.nseat - 1) /\ pre.seatmap[t.a.seat + 1] = -1)
    => /\ t.res = "ok" /\ t.a.id \in Ids(t.st)
       /\ t.a.seat # -1 => P(t.st, t.a.id).seat = t.a.seat
\* an update that removes and adds in one call and then fails has already removed (recorded finding)
KF_UpdatePartial(t) == t.ev = "ret:UpdateTablePlayers" /\ t.res # "ok" /\ Len(t.a.ids) > 0 /\ Len(t.a.joins) > 0

\* conformance of the opened snapshot with the transcription of calcGamePlayerIndexes / updatePlayerPositions (DRIFT only)
PositionsConform(t) ==
  \* (the transcription knows hands of two or more position slots; a hand opened with fewer is C05_dealtIn's matter)
  (IsOpenSnap(t) /\ t.st.rule # "short_deck" /\ C03_bijection(t.st) /\ C03_smAgree(t.st) /\ SlotCount(SmOf(t.st)) >= 2) =>
    LET st == t.st  m == SmOf(st)  gseats == GameSeats(m)  lab == CodeLabels(m) IN
    /\ [i \in 1..Len(st.gpi) |-> st.players[st.gpi[i] + 1].seat] = gseats
    /\ \A i \in 1..Len(st.players) : Range(st.players[i].pos) = lab[st.players[i].seat]

\* conformance of membership calls with the tight sequential model TableMembers (a mismatch is DRIFT, not a violation)
ToM(st) == [n |-> st.nseat,
            players |-> [i \in 1..Len(st.players) |-> [id |-> st.players[i].id, seat |-> st.players[i].seat, bank |-> st.players[i].bank, in |-> st.players[i].in]],
            sm |-> SmOf(st)]
JoinRecs(j) == [i \in 1..Len(j) |-> [id |-> j[i][1], seat |-> j[i][2], chips |-> j[i][3]]]
MOutcomes(pre, t) ==
  CASE t.ev = "ret:PlayerReserve" -> ReserveOutcomes(pre, t.a.id, t.a.seat, t.a.chips)
    [] t.ev = "ret:PlayerJoin" -> {JoinOutcome(pre, t.a.id)}
    [] t.ev = "ret:PlayerRedeemChips" -> {RedeemOutcome(pre, t.a.id, t.a.chips)}
    [] t.ev = "ret:PlayersLeave" -> {LeaveF(pre, t.a.ids)}
    [] t.ev = "ret:UpdateTablePlayers" -> UpdateOutcomes(pre, JoinRecs(t.a.joins), t.a.ids)
MemberConforms(t) ==
  (t.ev \in MemberEvs /\ Len(t.pre) = 1 /\ t.res # "panic" /\ C03_bijection(t.pre[1]) /\ C03_smAgree(t.pre[1]) /\ t.st.status # "projection-panic") =>
    MR(t.res, ToM(t.st)) \in MOutcomes(ToM(t.pre[1]), t)

\* ---------------------------------------------------------------- C01
NoHandInProgress(st) == st.status \notin HandStatuses /\ ~HasHand(st)
C01_conservation(t, gg) ==
  (t.ev \in {"q", "end"} /\ NoHandInProgress(t.st) /\ t.st.status # "none") => TotalBank(t.st) = gg.brought - gg.taken
ResultOf(st) == H(st).result
C01_settleCredit(t, gg) ==
  IsSettledSnap(t) =>
    LET st == t.st  res == ResultOf(st)  ids == GpiIds(st) IN
    /\ SeqSum([i \in 1..Len(res) |-> res[i][3]]) = 0
    /\ \A i \in 1..Len(res) :
         LET gi == res[i][1] + 1 IN
         gi \in 1..Len(ids) /\ ids[gi] \in gg.bankIds /\ BankOf(st, ids[gi]) = gg.banks[ids[gi]] + res[i][3]
    /\ \A id \in Ids(st) : (id \notin Range(ids) /\ id \in gg.bankIds) => BankOf(st, id) = gg.banks[id]

\* ---------------------------------------------------------------- C02
Rotations(s) == {[i \in 1..Len(s) |-> s[((i - 1 + k) % Len(s)) + 1]] : k \in 0..(Len(s) - 1)}
\* the elements of S as a sequence in increasing order of ord (ord injective on S), built by rank
SeqByRank(S, ord(_)) == [k \in 1..Cardinality(S) |-> CHOOSE s \in S : Cardinality({u \in S : ord(u) < ord(s)}) = k - 1]
Ident(x) == x
SortedSeats(S) == SeqByRank(S, Ident)
C02_openList(t) ==
  IsOpenSnap(t) =>
    LET st == t.st  ids == GpiIds(st) IN
    /\ \A i, j \in 1..Len(ids) : ids[i] = ids[j] => i = j
    /\ Range(ids) = PartIds(st)
    /\ Len(ids) >= 1 => [i \in 1..Len(ids) |-> P(st, ids[i]).seat] \in Rotations(SortedSeats({P(st, id).seat : id \in PartIds(st)}))
C02_stable(t, gg) ==
  (Trusty(t) /\ gg.handLive /\ ~IsOpenSnap(t) /\ t.st.gc = gg.lastGc /\ t.st.status \in HandStatuses) => GpiIds(t.st) = gg.handIds
\* ---------------------------------------------------------------- C20 (observers, independent copies)
ObserverKinds == {"observer", "observer2"}
HiddenFromObserver(h) ==
  /\ h.deck = 0 /\ h.burned = 0
  /\ IF h.ev = "GameClosed"
     THEN \A i \in 1..Len(h.p) : h.p[i].fold => (h.p[i].hole = 0 /\ ~h.p[i].combo)
     ELSE \A i \in 1..Len(h.p) : h.p[i].hole = 0 /\ ~h.p[i].combo
C20_observerHidden(t) == (t.ev = "actorview" /\ t.a.kind \in ObserverKinds /\ HasHand(t.st)) => HiddenFromObserver(H(t.st))
\* what the non-system observer hides is invisible to the system observer delivered before or after it, and to the engine
\* (pre = the engine's table as projected in the same callback just before it was handed to the actors)
C20_otherActorsIntact(t, gg) == (t.ev = "actorview" /\ t.a.kind = "system" /\ Len(t.pre) = 1) => t.st.hand = t.pre[1].hand
C20_engineIntact(t, gg) ==
  (t.ev = "actorsdone" /\ Len(t.pre) = 1) =>
    /\ t.st.hand = t.pre[1].hand /\ t.a.note # "tampered"
    /\ \A i \in 1..Len(t.st.players) : t.st.players[i].bank >= 0
C20_viewsIntact(t) == (t.ev = "actorview") => \A i \in 1..Len(t.st.players) : t.st.players[i].bank >= 0
\* ---------------------------------------------------------------- C17 (calls routed through the manager)
MgrLines == {"mgrprobe", "mgrclose", "mgrbystander", "mgrrefused"}
C17_refusedCreate(t) == (t.ev = "mgrrefused") => t.res \notin {"ok", "panic"}
C17_bystandersUntouched(t) == (t.by # "") => t.by = "same"
C17_ownTableOnly(t, gg) == (gg.ownTid # "" /\ t.ev \in {"cb:updated", "cb:state", "cb:error"} /\ t.st.status # "none") => t.st.tid = gg.ownTid
C17_notFound(t) == (t.ev = "mgrprobe") => t.res = "ErrManagerTableNotFound"
C17_closeRemoves(t) == (t.ev = "mgrclose") => t.res = "ok"
C17_bystandersRemain(t) == (t.ev = "mgrbystander") => t.res = "ok"

C02_stack(t, gg) ==
  (t.ev = "spy" /\ t.a.kind = "create" /\ t.res = "ok") =>
    /\ Len(t.a.joins) = Len(gg.handIds)
    /\ \A i \in 1..Len(t.a.joins) : gg.handIds[i] \in DOMAIN gg.openBank /\ t.a.joins[i][2] = gg.openBank[gg.handIds[i]]
C02_actionBy(t, gg) ==
  \* an accepted turn action was submitted by the table player that entry `cur` of the hand denotes
  (t.ev \in ActEvs /\ t.res = "ok" /\ t.a.kind \in WagerKinds \cup {"pass"} /\ Len(t.pre) = 1 /\ HasHand(t.pre[1])) =>
    LET cur == H(t.pre[1]).cur + 1 IN cur \in 1..Len(gg.handIds) /\ gg.handIds[cur] = t.a.id

\* ---------------------------------------------------------------- C05
C05_dealtIn(t) ==
  IsOpenSnap(t) =>
    LET st == t.st IN
    /\ \A i \in 1..Len(st.players) :
         st.players[i].part <=> (st.players[i].in /\ st.players[i].bank > 0 /\ ~SmBtw(st, st.players[i].id))
    /\ Cardinality(PartIds(st)) >= 2
T_C05_continuity(t, gg) ==
  IsOpenSnap(t) =>
    \A id \in gg.lastParts :
      (/\ id \in Ids(t.st) /\ id \notin gg.leftSince /\ id \in gg.afterIds /\ gg.afterBank[id] > 0
       /\ P(t.st, id).in /\ P(t.st, id).bank > 0) => P(t.st, id).part
C05_maxMissed(t, gg) ==
  IsOpenSnap(t) =>
    \A id \in Ids(t.st) :
      (~P(t.st, id).part /\ P(t.st, id).in /\ P(t.st, id).bank > 0) => Fn(gg.missed, gg.missedIds, id, 0) + 1 <= 3
T_C05_newcomerFlag(t) ==
  (t.ev = "ret:PlayerReserve" /\ t.res = "ok" /\ Len(t.pre) = 1 /\ t.a.id \notin Ids(t.pre[1]) /\ t.a.id \in Ids(t.st)) =>
    LET pre == t.pre[1]  s == P(t.st, t.a.id).seat IN
    SmBtw(t.st, t.a.id) = (pre.sm.inited /\ pre.rule # "short_deck" /\ pre.sm.dealer # pre.sm.bb
                           /\ StrictlyBetween(pre.nseat, pre.sm.dealer, pre.sm.bb, s))

\* ---------------------------------------------------------------- C06 (default rule)
PartAtSeat(st, s) == st.seatmap[s + 1] >= 0 /\ st.players[st.seatmap[s + 1] + 1].part
TSlotSeats(st) == {s \in 0..(st.nseat - 1) : s \in {st.dealer, st.sb, st.bb} \/ PartAtSeat(st, s)}
\* k-th slot seat clockwise starting at the bb seat (k = 1 is the bb seat itself)
SlotSeq(st) == LET S == TSlotSeats(st)
                   ord(s) == (s - st.bb + st.nseat) % st.nseat
               IN SeqByRank(S, ord)
C06_labels(t) ==
  (IsOpenSnap(t) /\ t.st.rule # "short_deck") =>
    LET st == t.st  sq == SlotSeq(st)  n == Len(sq)  lab == SlotLabels(n) IN
    /\ n >= 2 /\ n <= 10
    /\ \A k \in 1..n : PartAtSeat(st, sq[k]) => Range(st.players[st.seatmap[sq[k] + 1] + 1].pos) = lab[k]
    /\ \A i \in 1..Len(st.players) : ~st.players[i].part => st.players[i].pos = <<>>
    /\ \A i \in 1..Len(st.players) : st.players[i].part => st.players[i].pos # <<>>
    /\ \A i, j \in 1..Len(st.players) : i # j => Range(st.players[i].pos) \cap Range(st.players[j].pos) = {}
    /\ PartAtSeat(st, st.bb) /\ "bb" \in Range(st.players[st.seatmap[st.bb + 1] + 1].pos)
    /\ (st.sb \in 0..(st.nseat - 1) /\ PartAtSeat(st, st.sb)) => "sb" \in Range(st.players[st.seatmap[st.sb + 1] + 1].pos)
\* "in every hand ... every dealt-in player has one, nobody else has any": the labels handed out when the hand opened stay
\* what they are for as long as the hand is on the table (nothing written later in the hand adds, moves or removes one)
C06_labelsStable(t, gg) ==
  (Trusty(t) /\ gg.handLive /\ ~IsOpenSnap(t) /\ t.st.gc = gg.lastGc /\ t.st.status \in HandStatuses /\ t.st.rule # "short_deck") =>
    \A id \in Ids(t.st) :
      Range(P(t.st, id).pos) = (IF id \in DOMAIN gg.openLabels THEN Range(gg.openLabels[id]) ELSE {})
C06_engineLabels(t, gg) ==
  (t.ev = "spy" /\ t.a.kind = "create" /\ t.res = "ok" /\ t.st.rule # "short_deck" /\ Len(t.a.joins) = Len(gg.handIds)) =>
    \A i \in 1..Len(t.a.joins) :
      LET got == {t.a.joins[i][j] : j \in 3..Len(t.a.joins[i])}
          want == Range(gg.openLabels[gg.handIds[i]])
          someoneDealer == \E id \in Range(gg.handIds) : "dealer" \in Range(gg.openLabels[id])
      IN got = want \/ (i = 1 /\ ~someoneDealer /\ got = want \cup {"dealer"})
C06_nextBB(t) ==
  (IsSettledSnap(t) /\ t.st.rule # "short_deck") =>
    LET st == t.st
        S == {s \in 0..(st.nseat - 1) : st.seatmap[s + 1] >= 0 /\ st.players[st.seatmap[s + 1] + 1].bank > 0}
        ord(s) == (s - st.sm.bb - 1 + 2 * st.nseat) % st.nseat
        sq == SeqByRank(S, ord)
    IN st.nextbb = [k \in 1..Cardinality(S) |-> st.players[st.seatmap[sq[k] + 1] + 1].id]
\* recorded finding: a dealt-in player sits strictly between the dealer seat and the small-blind seat (a player who
\* reserved before positions were set and sat in later); the dealer label then goes to him, not to the dealer seat
KF_DealtInBetweenDealerAndSB(st) ==
  st.dealer # st.sb /\ st.dealer \in 0..(st.nseat - 1) /\ st.sb \in 0..(st.nseat - 1)
  /\ \E s \in 0..(st.nseat - 1) : PartAtSeat(st, s) /\ StrictlyBetween(st.nseat, st.dealer, st.sb, s)
\* the recorded rule finding "dealer seat = big-blind seat" makes slots ambiguous
KF_DealerOnBBTable(st) == st.dealer = st.bb /\ st.dealer # st.sb

\* ---------------------------------------------------------------- C07
StatusStep(a, b) ==
  \/ a = b
  \/ a \in {"table_created", "table_balancing", "table_pausing", "none"} /\ b \in {"table_game_opened", "table_created", "table_balancing", "table_pausing"}
  \/ a = "table_game_opened" /\ b = "table_game_playing"
  \/ a = "table_game_playing" /\ b = "table_game_settled"
  \/ a = "table_game_settled" /\ b = "table_game_standby"
  \/ a = "table_game_standby" /\ b \in {"table_game_opened", "table_pausing"}
C07_statusStep(t, gg) == (Trusty(t) /\ ~gg.ext) => StatusStep(gg.lastStatus, t.st.status)
C07_gcStep(t, gg) == Trusty(t) => t.st.gc = (IF IsOpenSnap(t) THEN gg.lastGc + 1 ELSE gg.lastGc)
C07_freshGid(t, gg) == (Trusty(t) /\ HasHand(t.st) /\ gg.handLive) => H(t.st).gid \notin gg.gids
C07_oneAtATime(t, gg) == IsOpenSnap(t) => ~gg.handLive
ZeroStats(s) == s.at = 0 /\ s.rt = 0 /\ s.ct = 0 /\ s.kt = 0 /\ ~s.fold /\ s.fr = "" /\ s.flags = <<>>
C07_reset(t) ==
  (t.ev = "hook" /\ t.a.kind = "continue.reset") =>
    LET st == t.st IN
    /\ st.gpi = <<>> /\ ~HasHand(st) /\ st.la = <<>> /\ st.deadline = 0
    /\ \A i \in 1..Len(st.players) : st.players[i].pos = <<>> /\ ZeroStats(st.players[i].stats)
C07_noOpenAfterClose(t, gg) == IsOpenSnap(t) => ~gg.closedBetween
C07_noOpenOnBreak(t) == IsOpenSnap(t) => BlindIsSet(t.st.blind) /\ ~BlindIsBreak(t.st.blind)

\* ---------------------------------------------------------------- C08
ShouldPause(f) == BlindIsBreak(f.blind) \/ Cardinality(AliveIds(f)) < f.minp
C08_pauseIff(t, gg) ==
  \* the first engine-side line after the continue handler started shows its decision
  (gg.afterFire /\ ~IsRet(t) /\ ~gg.ext /\ Len(gg.fireSt) = 1 /\ gg.fireSt[1].status = "table_game_standby") =>
    IF ShouldPause(gg.fireSt[1])
    THEN t.ev = "cb:updated" /\ t.st.status = "table_pausing"
    ELSE t.ev = "hook" /\ t.a.kind = "continue.setup"
\* after a settlement the continue handler runs (the table's own timer): the driver has waited for the engine to come to rest
C08_continueRuns(t, gg) == (t.ev \in {"noopen", "stuck"} /\ ~gg.ext) => ~gg.awaitFire
\* between hands, left to itself, the table is in stand-by when its continue timer fires (whoever was moved in meanwhile)
C08_standbyAtFire(t, gg) ==
  (t.ev = "hook" /\ t.a.kind = "continue.fire" /\ ~gg.ext /\ ~HasHand(t.st) /\ t.st.gpi = <<>>) => t.st.status = "table_game_standby"
C08_gateParticipants(t) ==
  (t.ev = "hook" /\ t.a.kind = "continue.setup") =>
    (Cardinality(AliveInIds(t.st)) >= 2 => Len(t.st.gate.parts) >= 2)
ExpectOpen(st) == /\ st.status = "table_game_standby" /\ Cardinality(AliveInIds(st)) >= 2
                  /\ BlindIsSet(st.blind) /\ ~BlindIsBreak(st.blind) /\ ~st.released
\* the proviso ("at least two seated-in players have chips", no break) is taken when the continue handler ran
C08_noWedge(t, gg) ==
  \* (a blind update since the handler ran -- a break announced and called off again -- is the competition layer's business)
  (t.ev = "noopen" /\ ~gg.ext /\ ~gg.extSetup /\ ~gg.blindSinceFire /\ Len(gg.fireSt) = 1 /\ gg.fireSt[1].gc = t.st.gc
   /\ ~ShouldPause(gg.fireSt[1]) /\ Cardinality(AliveInIds(gg.fireSt[1])) >= 2) => ~ExpectOpen(t.st)
KF_RotationRefused(st) == \* the seat manager would refuse the rotation although two seated-in players have chips (KF-C04-waiting-newcomer)
  LET s == SmOf(st)  r == RotateF(s) IN s.inited /\ r.res # "ok" /\ AliveCount(s) >= 2

\* ---------------------------------------------------------------- C10
Legal(pre, id, kind) ==
  /\ pre.status = "table_game_playing" /\ HasHand(pre)
  /\ id \in Range(GpiIds(pre))
  /\ LET gi == CHOOSE i \in 1..Len(pre.gpi) : GpiIds(pre)[i] = id  h == H(pre) IN
     /\ gi <= Len(h.p) /\ kind \in Range(h.p[gi].allowed)
     /\ kind \in WagerKinds \cup {"pass"} => (h.cur = gi - 1 /\ h.ev = "RoundStarted")
C10_acceptedLegal(t) == (t.ev \in ActEvs /\ t.res = "ok" /\ Len(t.pre) = 1) => Legal(t.pre[1], t.a.id, t.a.kind)
TurnKinds == WagerKinds \cup {"pass"}
TurnEvents(gg) == SelectSeq(gg.actEvents, LAMBDA e : e.kind \in TurnKinds)
TurnCalls(gg) == SelectSeq(gg.spyCalls, LAMBDA c : c[1] \in TurnKinds /\ c[2] = "ok")
C10_refusedNoTrace(t, gg) == (t.ev \in ActEvs /\ t.res # "ok") => (t.same /\ TurnEvents(gg) = <<>> /\ TurnCalls(gg) = <<>>)
MatchingEvent(e, t) == e.id = t.a.id /\ e.kind = t.a.kind /\ Len(t.pre) = 1 /\ HasHand(t.pre[1])
                       /\ e.round = H(t.pre[1]).round /\ e.gc = t.pre[1].gc /\ e.seat = P(t.pre[1], t.a.id).seat
                       /\ e.gid = H(t.pre[1]).gid
C10_published(t, gg) ==
  (t.ev \in ActEvs /\ t.res = "ok" /\ Len(t.pre) = 1 /\ t.a.id \in Ids(t.pre[1])) =>
    IF t.a.kind \in TurnKinds
    THEN /\ Len(TurnEvents(gg)) = 1 /\ MatchingEvent(TurnEvents(gg)[1], t)
         /\ (gg.nospy \/ TurnCalls(gg) = << <<t.a.kind, "ok", IF t.a.kind \in {"bet", "raise"} THEN t.a.amt ELSE 0>> >>)
         /\ t.st.la # <<>> => (t.st.la[1].id = t.a.id /\ t.st.la[1].action = t.a.kind /\ t.st.la[1].seat = P(t.pre[1], t.a.id).seat
                               /\ t.st.la[1].gc = t.pre[1].gc /\ t.st.la[1].round = H(t.pre[1]).round)
    ELSE /\ TurnEvents(gg) = <<>> /\ TurnCalls(gg) = <<>>
         /\ t.st.la # <<>> => (t.st.la[1].id = t.a.id /\ t.st.la[1].action = t.a.kind)

\* ---------------------------------------------------------------- C11
Asked(h, what) == {i \in 1..Len(h.p) : what \in Range(h.p[i].allowed)}
BlindHolders(h) == {i \in 1..Len(h.p) :
   \/ h.bl[3] > 0 /\ "bb" \in Range(h.p[i].pos)
   \/ h.bl[2] > 0 /\ "sb" \in Range(h.p[i].pos)
   \/ h.bl[1] > 0 /\ "dealer" \in Range(h.p[i].pos)}
FirstPub(t, gg) == t.ev = "cb:updated" /\ HasHand(t.st) /\ H(t.st).upd # gg.lastUpd
C11_askedSets(t, gg) ==
  (FirstPub(t, gg) /\ t.st.status = "table_game_playing") =>
    LET h == H(t.st) IN
    /\ h.ev = "ReadyRequested" => Asked(h, "ready") = 1..Len(h.p)
    /\ h.ev = "AnteRequested" => Asked(h, "pay") = 1..Len(h.p)
    /\ h.ev = "BlindsRequested" => Asked(h, "pay") = BlindHolders(h)
C11_noEarlyAdvance(t, gg) ==
  (t.ev = "withheld" /\ Len(gg.withholdSt) = 1 /\ t.a.amt < 16000 /\ HasHand(gg.withholdSt[1]) /\ ~gg.heldAnswered) =>
    HasHand(t.st) /\ H(t.st).upd = H(gg.withholdSt[1]).upd /\ H(t.st).ev = H(gg.withholdSt[1]).ev
\* the driver gave up waiting although every asked player had answered / a produced hand state was never handled
HandStall(t) == t.ev = "idle" \/ (t.ev = "stuck" /\ t.a.kind = "hand")
\* ... "every asked player had answered" is taken from the recorded calls, not from the driver's own book-keeping
AskedIds(st) == IF HasHand(st) THEN {GpiIds(st)[i] : i \in {j \in 1..Len(st.gpi) : j <= Len(H(st).p) /\ (Range(H(st).p[j].allowed) \cap {"ready", "pay"}) # {}}} ELSE {}
AnswersRecorded(t, gg) ==
  \/ t.ev = "idle" \/ H(t.st).ev \notin {"ReadyRequested", "AnteRequested", "BlindsRequested"}
  \/ LET need == IF H(t.st).ev = "ReadyRequested" THEN "ready" ELSE "pay" IN
     \A id \in AskedIds(t.st) : <<id, need>> \in (gg.ansIds \cup gg.prevAns)
\* ... and once the response time-out (17 s) has passed the hand has moved on by itself
C11_timeoutAdvances(t, gg) ==
  (t.ev = "withheld" /\ Len(gg.withholdSt) = 1 /\ t.a.amt >= 17500 /\ HasHand(gg.withholdSt[1]) /\ ~gg.ext /\ gg.faults = 0) =>
    (~HasHand(t.st) \/ H(t.st).upd # H(gg.withholdSt[1]).upd)
C11_progress(t, gg) == (HandStall(t) /\ gg.faults = 0 /\ ~gg.ext /\ HasHand(t.st) /\ AnswersRecorded(t, gg)) => FALSE
\* a hand whose last round has closed is settled and cleared away, whatever lands meanwhile (pause, close): at rest the table never
\* still carries a closed hand
C11_closedHandSettles(t) == (t.ev \in {"q", "end"} /\ HasHand(t.st)) => H(t.st).ev # "GameClosed"
C11_resultComplete(t, gg) == IsSettledSnap(t) => Len(ResultOf(t.st)) = Len(gg.handIds) /\ Len(H(t.st).p) = Len(gg.handIds)

\* ---------------------------------------------------------------- hand conformance (C10 "applied once", C11 "moves on by itself")
\* Every hand state the table publishes is the rules' result of exactly the next successful backend call applied to the
\* previously published state (calls and publications are both FIFO).
PubStep(t, gg) ==
  LET new == StripWrapper(ToHand(H(t.st)))  c == gg.callQ[1] IN
  IF c.kind = "create"
  THEN new = StripWrapper(NewHand([i \in 1..Len(c.joins) |-> c.joins[i][2]],
                                  [i \in 1..Len(c.joins) |-> {c.joins[i][j] : j \in 3..Len(c.joins[i])}],
                                  c.blind[1], c.blind[2], c.blind[3], c.blind[4]))
  ELSE Len(gg.pubH) = 1 /\ new = Apply(gg.pubH[1], c.kind, c.amt)
HasPubStep(t, gg) == FirstPub(t, gg) /\ gg.callQ # <<>> /\ ~gg.kfMidLeave /\ t.st.rule # "short_deck"   \* (HandRules transcribes the default rule)
C10_appliedOnce(t, gg) == (HasPubStep(t, gg) /\ gg.callQ[1].kind \in TurnKinds) => PubStep(t, gg)
C11_autoStep(t, gg) == (HasPubStep(t, gg) /\ gg.callQ[1].kind \in {"readyall", "ante", "blinds", "next"}) => PubStep(t, gg)
C02_handCreated(t, gg) == (HasPubStep(t, gg) /\ gg.callQ[1].kind = "create") => PubStep(t, gg)
C11_publishedInOrder(t, gg) == (FirstPub(t, gg) /\ ~gg.nospy) => gg.callQ # <<>>

\* ---------------------------------------------------------------- C13 (failing game backend)
AutoKinds == {"readyall", "ante", "blinds", "next", "create"}
FailedCalls(gg) == SelectSeq(gg.spyCalls, LAMBDA c : c[2] = "fail")
C13_errorReturned(t, gg) ==
  (t.ev \in ActEvs /\ \E i \in 1..Len(gg.spyCalls) : gg.spyCalls[i][2] = "fail" /\ gg.spyCalls[i][1] \in TurnKinds) => t.res = "ErrInjected"
C13_unchanged(t, gg) == (t.ev \in ActEvs /\ t.res = "ErrInjected") => (t.same /\ TurnEvents(gg) = <<>> /\ TurnCalls(gg) = <<>>)
C13_retryAccepted(t, gg) ==
  (t.ev \in ActEvs /\ t.a.note = "cur-retry" /\ FailedCalls(gg) = <<>>) => t.res = "ok"
\* with failures in the hand, its course is still exactly the chain of successfully applied steps
C13_courseBySuccessfulSteps(t, gg) == (HasPubStep(t, gg) /\ gg.faults > 0) => PubStep(t, gg)
\* a failure in a step the engine performs by itself reaches the table error callback
\* every failure of a step the engine performs by itself is followed by a report of its own on the error callback (a report
\* that came before the failure -- whatever it was about -- does not stand in for it)
C13_autoFailReported(t, gg) == (t.ev = "end" /\ gg.autoFails > 0) => (gg.errEvents >= gg.autoFails /\ gg.autoOwed = 0)

\* ---------------------------------------------------------------- C12
\* "those in force at the moment it opened".  A level change that arrives between the publication of the opened table and the
\* creation of the hand (from the application's own listener of the opened event) falls into that moment: the hand may go by
\* the level before or after it -- but what it charges, what it publishes and what the hand engine got must be ONE level.
OB4(b) == <<b[2], b[3], b[4], b[5]>>
C12_createAtOpenBlind(t, gg) ==
  (t.ev = "spy" /\ t.a.kind = "create" /\ t.res = "ok" /\ Len(gg.openBlind) = 5) =>
    IF gg.blindInOpenWin /\ Len(gg.blindSet) = 5 THEN t.a.blind \in {OB4(gg.openBlind), OB4(gg.blindSet)}
    ELSE t.a.blind = OB4(gg.openBlind)
C12_gameBlind(t, gg) ==
  (Trusty(t) /\ gg.handLive /\ HasHand(t.st) /\ t.st.status \in {"table_game_playing", "table_game_settled"} /\ Len(gg.openBlind) = 5) =>
    IF gg.blindInOpenWin
    THEN (Len(gg.createBlind) = 4 /\ Len(t.st.gblind) = 5) =>
           /\ OB4(t.st.gblind) = gg.createBlind
           /\ <<H(t.st).ante, H(t.st).bl[1], H(t.st).bl[2], H(t.st).bl[3]>> = gg.createBlind
    ELSE /\ t.st.gblind = gg.openBlind
         /\ H(t.st).ante = gg.openBlind[2] /\ H(t.st).bl = <<gg.openBlind[3], gg.openBlind[4], gg.openBlind[5]>>
C12_updateSticks(t, gg) == (Trusty(t) /\ Len(gg.blindSet) = 5) => t.st.blind = gg.blindSet
\* when the level is a break as the continue handler runs, the table pauses (the break case of C08_pauseIff)
C12_breakPauses(t, gg) ==
  (gg.afterFire /\ ~IsRet(t) /\ ~gg.ext /\ Len(gg.fireSt) = 1 /\ gg.fireSt[1].status = "table_game_standby"
   /\ BlindIsBreak(gg.fireSt[1].blind)) =>
    (t.ev = "cb:updated" /\ t.st.status = "table_pausing")
C12_createdOnBreak(t) == (t.ev = "ret:CreateTable" /\ t.res = "ok" /\ t.a.blind[1] = -1) => t.st.status = "table_pausing"

\* ---------------------------------------------------------------- C14
FlagPairs == {<<"vpip", "vpipC">>, <<"pfr", "pfrC">>, <<"ats", "atsC">>, <<"3b", "3bC">>, <<"ft3b", "ft3bC">>,
              <<"cr", "crC">>, <<"cb", "cbC">>, <<"ftcb", "ftcbC">>, <<"sd", "sdC">>}
\* judged at the first quiescent line after the settled snapshot (the return of the call that closed the hand may be
\* recorded after the snapshot it caused)
C14_counters(t, gg) ==    \* (... or the snapshot that opens the next hand, when that comes first)
  ((t.ev \in {"q", "end"} \/ (Trusty(t) /\ IsOpenSnap(t))) /\ Len(gg.settledSt) = 1) =>
    \A id \in Range(gg.handIds) : id \in Ids(gg.settledSt[1]) =>
      LET s == P(gg.settledSt[1], id).stats  c == Fn(gg.cnt, gg.cntIds, id, ZeroCnt) IN
      /\ s.at = c.at /\ s.ct = c.ct /\ s.kt = c.kt /\ s.rt <= s.at
      /\ s.fold = c.fold /\ s.fr = c.fr
      /\ \A pr \in FlagPairs : pr[1] \in Range(s.flags) => pr[2] \in Range(s.flags)
C14_one3bet(t) ==
  IsSettledSnap(t) => Cardinality({i \in 1..Len(t.st.players) : "3b" \in Range(t.st.players[i].stats.flags)}) <= 1
\* "all statistics are cleared before the next hand": at the between-hands reset and again at the snapshot that opens a hand
C14_cleared(t) ==
  ((t.ev = "hook" /\ t.a.kind = "continue.reset") \/ (Trusty(t) /\ IsOpenSnap(t))) =>
    \A i \in 1..Len(t.st.players) : ZeroStats(t.st.players[i].stats)
C14_nonParticipantsZero(t) ==
  IsSettledSnap(t) => \A i \in 1..Len(t.st.players) : ~t.st.players[i].part =>
       (t.st.players[i].stats.at = 0 /\ t.st.players[i].stats.ct = 0 /\ t.st.players[i].stats.kt = 0)

\* ---------------------------------------------------------------- C15
OnlyWager(al) == al # <<>> /\ Range(al) \subseteq WagerKinds
C15_deadlineSet(t, gg) ==
  (FirstPub(t, gg) /\ t.st.status = "table_game_playing" /\ H(t.st).ev = "RoundStarted"
   /\ H(t.st).cur + 1 \in 1..Len(H(t.st).p)) =>
    LET p == H(t.st).p[H(t.st).cur + 1] IN
    (OnlyWager(p.allowed) /\ ~p.acted) => (t.st.deadline >= t.t + t.st.actiontime - 1 /\ t.st.deadline <= t.t + t.st.actiontime + 1)
C15_deadlineCleared(t, gg) ==
  (FirstPub(t, gg) /\ H(t.st).ev = "RoundClosed") => t.st.deadline = 0
C15_clearedBetweenHands(t) == (t.ev = "hook" /\ t.a.kind = "continue.reset") => t.st.deadline = 0
C15_extend(t) ==
  (t.ev = "ret:PlayerExtendActionDeadline" /\ t.res = "ok" /\ Len(t.pre) = 1) =>
    (t.a.chips = t.pre[1].deadline + t.a.amt /\ t.st.deadline = t.a.chips)

\* ---------------------------------------------------------------- C18 (all-bot tables: what the bots submit to the real engine)
C18_botCallAccepted(t) == t.ev = "botcall" => t.res = "ok"
C18_oneActionPerRequest(t, gg) == (t.ev = "botcall" /\ t.res = "ok") => <<t.a.id, t.a.note>> \notin gg.botCalls

\* ---------------------------------------------------------------- the verdict
CheckLine(k, gg) ==
  LET t == Trace[k]  st == t.st
      ok == st.status \notin {"none", "projection-panic"}
      kfmid == IF gg.kfMidLeave THEN "KF-midhand-leave" ELSE ""
      \* a hand dealt with the label layout of finding KF-C06 (two dealer labels reach the hand engine): the rules model is not
      \* claimed for it
      kfhand == IF Len(gg.openSt) = 1 /\ KF_DealtInBetweenDealerAndSB(gg.openSt[1]) THEN "KF-C06-active-between-dealer-and-sb" ELSE ""
      \* KF-open-window-overwrite: a lock-free call landed between the clone and the swap of tableGameOpen and was overwritten
      kfwin(S, other) == IF gg.openWin \cap S # {} THEN "KF-open-window-overwrite" ELSE other
      midOp == gg.inGate \in {"members.add.mid", "members.remove.mid"}   \* another goroutine is parked in the middle of a membership operation
  IN
  t.ev = "scenario" \/
  \* a public call that never returned (driver watchdog) in a scenario in which a backend call had been made to fail
  (t.ev = "hang" /\ Clause("C13_callsReturn", gg.faults = 0, "", k)) \/
  (t.ev \in MgrLines /\ Clause("C17_notFound", C17_notFound(t), "", k) /\ Clause("C17_closeRemoves", C17_closeRemoves(t), "", k)
                    /\ Clause("C17_bystandersRemain", C17_bystandersRemain(t), "", k) /\ Clause("C17_bystandersUntouched", C17_bystandersUntouched(t), "", k)
                    /\ Clause("C17_refusedCreate", C17_refusedCreate(t), "", k)) \/
  (t.ev \in {"actorview", "actorsdone"} /\ Clause("C20_observerHidden", C20_observerHidden(t), "", k)
      /\ Clause("C20_otherActorsIntact", C20_otherActorsIntact(t, gg), "", k) /\ Clause("C20_engineIntact", C20_engineIntact(t, gg), "", k)
      /\ Clause("C20_viewsIntact", C20_viewsIntact(t), "", k)) \/
  /\ t.ev \notin MgrLines /\ t.ev \notin {"actorview", "actorsdone"}
  /\ Clause("C17_bystandersUntouched", C17_bystandersUntouched(t), "", k)
  /\ Clause("C17_ownTableOnly", C17_ownTableOnly(t, gg), "", k)
  /\ (midOp \/ t.a.note = "background" \/ MemberConforms(t) \/ PrintT(<<"DRIFT", k, t.ev, t.res>>))
  /\ (PositionsConform(t) \/ PrintT(<<"DRIFT", k, "positions", "open">>))
  /\ Clause("C18_botTablePlaysOut", t.ev # "botstall", "", k)
  /\ Clause("C18_botCallAccepted", C18_botCallAccepted(t), "", k)
  /\ Clause("C18_oneActionPerRequest", C18_oneActionPerRequest(t, gg), "", k)
  /\ Clause("C03_noPanic", t.res # "panic" /\ st.status # "projection-panic" /\ t.ev # "crash", kfmid, k)
  /\ ok =>
     /\ Clause("C03_bijection", ((Trusty(t) \/ IsRet(t)) /\ ~midOp) => C03_bijection(st), kfmid, k)
     /\ Clause("C03_smAgree", ((t.ev \in {"q", "end"} \/ t.ev \in MemberEvs) /\ ~midOp) => SmAgreeG(st, t.ev \in MemberEvs),
               IF KF_UpdatePartial(t) THEN "KF-C03-update-partial" ELSE kfwin({"ret:PlayerJoin"}, kfmid), k)
     /\ Clause("C03_errorUnchanged", C03_errorUnchanged(t), IF KF_UpdatePartial(t) THEN "KF-C03-update-partial" ELSE "", k)
     /\ Clause("C03_reserveAccepted", C03_reserveAccepted(t), "", k)
     /\ Clause("C01_conservation", C01_conservation(t, gg), kfwin({"ret:PlayerRedeemChips"}, kfmid), k)
     /\ Clause("C01_settleCredit", C01_settleCredit(t, gg), kfmid, k)
     /\ Clause("C02_openList", C02_openList(t), IF st.rule = "short_deck" THEN "KF-C02-shortdeck-order" ELSE "", k)
     /\ Clause("C02_stable", C02_stable(t, gg), kfmid, k)
     /\ Clause("C02_stack", C02_stack(t, gg), kfmid, k)
     /\ Clause("C02_actionBy", C02_actionBy(t, gg), kfmid, k)
     /\ Clause("C05_dealtIn", C05_dealtIn(t), kfwin({"ret:PlayerJoin"}, ""), k)
     /\ Clause("C05_continuity", T_C05_continuity(t, gg), "", k)
     /\ Clause("C05_maxMissed", C05_maxMissed(t, gg), "", k)
     /\ Clause("C05_newcomerFlag", T_C05_newcomerFlag(t), "", k)
     /\ Clause("C06_labels", C06_labels(t), IF KF_DealerOnBBTable(st) THEN "KF-C04-dealer-on-bb"
                                            ELSE IF KF_DealtInBetweenDealerAndSB(st) THEN "KF-C06-active-between-dealer-and-sb" ELSE "", k)
     /\ Clause("C06_labelsStable", C06_labelsStable(t, gg), kfmid, k)
     /\ Clause("C06_engineLabels", C06_engineLabels(t, gg),
               IF Len(gg.openSt) = 1 /\ KF_DealtInBetweenDealerAndSB(gg.openSt[1]) THEN "KF-C06-active-between-dealer-and-sb" ELSE "", k)
     /\ Clause("C06_nextBB", C06_nextBB(t), "", k)
     /\ Clause("C07_statusStep", C07_statusStep(t, gg), "", k)
     /\ Clause("C07_gcStep", C07_gcStep(t, gg), "", k)
     /\ Clause("C07_freshGid", C07_freshGid(t, gg), "", k)
     /\ Clause("C07_oneAtATime", C07_oneAtATime(t, gg), "", k)
     /\ Clause("C07_reset", C07_reset(t), "", k)
     /\ Clause("C07_noOpenAfterClose", C07_noOpenAfterClose(t, gg), kfwin({"ret:CloseTable", "ret:ReleaseTable"}, ""), k)
     /\ Clause("C07_noOpenOnBreak", C07_noOpenOnBreak(t), "", k)
     /\ Clause("C08_pauseIff", C08_pauseIff(t, gg), "", k)
     /\ Clause("C08_gateParticipants", C08_gateParticipants(t), "", k)
     /\ Clause("C08_continueRuns", C08_continueRuns(t, gg), "", k)
     /\ Clause("C08_standbyAtFire", C08_standbyAtFire(t, gg), "", k)
     /\ Clause("C08_noWedge", C08_noWedge(t, gg), IF KF_RotationRefused(st) THEN "KF-C04-waiting-newcomer" ELSE "", k)
     /\ Clause("C10_acceptedLegal", C10_acceptedLegal(t), "", k)
     /\ Clause("C10_refusedNoTrace", C10_refusedNoTrace(t, gg), kfmid, k)
     /\ Clause("C10_published", C10_published(t, gg), kfhand, k)
     /\ Clause("C10_appliedOnce", C10_appliedOnce(t, gg), kfhand, k)
     /\ Clause("C11_autoStep", C11_autoStep(t, gg), kfhand, k)
     /\ Clause("C02_handCreated", C02_handCreated(t, gg), kfhand, k)
     /\ Clause("C11_publishedInOrder", C11_publishedInOrder(t, gg), "", k)
     /\ Clause("C11_askedSets", C11_askedSets(t, gg), "", k)
     /\ Clause("C11_noEarlyAdvance", C11_noEarlyAdvance(t, gg), "", k)
     /\ Clause("C11_timeoutAdvances", C11_timeoutAdvances(t, gg), "", k)
     /\ Clause("C11_progress", C11_progress(t, gg), kfmid, k)
     /\ Clause("C11_resultComplete", C11_resultComplete(t, gg), kfmid, k)
     /\ Clause("C11_closedHandSettles", C11_closedHandSettles(t), kfmid, k)
     /\ Clause("C13_errorReturned", C13_errorReturned(t, gg), "", k)
     /\ Clause("C13_unchanged", C13_unchanged(t, gg), "", k)
     /\ Clause("C13_retryAccepted", C13_retryAccepted(t, gg), "", k)
     /\ Clause("C13_courseBySuccessfulSteps", C13_courseBySuccessfulSteps(t, gg), kfhand, k)
     /\ Clause("C13_autoFailReported", C13_autoFailReported(t, gg), "", k)
     /\ Clause("C12_createAtOpenBlind", C12_createAtOpenBlind(t, gg), "", k)
     /\ Clause("C12_gameBlind", C12_gameBlind(t, gg), "", k)
     /\ Clause("C12_updateSticks", C12_updateSticks(t, gg), IF gg.blindSetInGate THEN "KF-C12-lost-update" ELSE "", k)
     /\ Clause("C12_createdOnBreak", C12_createdOnBreak(t), "", k)
     /\ Clause("C12_breakPauses", C12_breakPauses(t, gg), "", k)
     /\ Clause("C14_counters", C14_counters(t, gg), kfmid, k)
     /\ Clause("C14_one3bet", C14_one3bet(t), "", k)
     /\ Clause("C14_cleared", C14_cleared(t), kfmid, k)
     /\ Clause("C14_nonParticipantsZero", C14_nonParticipantsZero(t), kfmid, k)
     /\ Clause("C15_deadlineSet", C15_deadlineSet(t, gg), "", k)
     /\ Clause("C15_deadlineCleared", C15_deadlineCleared(t, gg), "", k)
     /\ Clause("C15_clearedBetweenHands", C15_clearedBetweenHands(t), "", k)
     /\ Clause("C15_extend", C15_extend(t), "", k)

Init == l = 1 /\ g = G0
Next == l <= Len(Trace) /\ l' = l + 1 /\ g' = Upd(g, l)
Spec == Init /\ [][Next]_<<l, g>>
Verdict == l > Len(Trace) \/ CheckLine(l, g)
Done == TLCGet("stats").diameter = Len(Trace) + 1 \/ PrintT(<<"INCOMPLETE", TLCGet("stats").diameter, Len(Trace)>>)
=============================================================================
