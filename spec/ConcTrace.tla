----------------------------- MODULE ConcTrace -----------------------------
(***************************************************************************)
(* C16: batches of calls issued at the same time from many goroutines      *)
(* (vh conc).  A batch is accepted iff there is an order in which the      *)
(* sequential models (TableMembers for the table engine, SeatManager for   *)
(* the bare seat manager) produce exactly the recorded results and the     *)
(* recorded final state -- TLC searches the order.                         *)
(* Lines: [tr, n, ev, procs, ops, pre, st, smpre, smst, note, acc, mover]. *)
(***************************************************************************)
EXTENDS TableMembers, HandJson, Json, IOUtils
VARIABLE l
Trace == ndJsonDeserialize(IOEnv.TRACE)
Clause(name, ok, tag, k) == ok \/ PrintT(<<"VIOL", name, k, tag>>)

ToSeatC(a) == [id |-> a[1], in |-> a[2], btw |-> a[3], chips |-> a[4]]
SmFromJ(j) == [n |-> j.n, rule |-> j.rule, seat |-> [s \in 0..(j.n - 1) |-> ToSeatC(j.seat[s + 1])],
               dealer |-> j.dealer, sb |-> j.sb, bb |-> j.bb, inited |-> j.inited]
SmFromP(st) == [n |-> st.nseat, rule |-> "default", seat |-> [s \in 0..(st.nseat - 1) |-> ToSeatC(st.sm.seat[s + 1])],
                dealer |-> st.sm.dealer, sb |-> st.sm.sb, bb |-> st.sm.bb, inited |-> st.sm.inited]
ToMC(st) == [n |-> st.nseat,
             players |-> [i \in 1..Len(st.players) |-> [id |-> st.players[i].id, seat |-> st.players[i].seat, bank |-> st.players[i].bank, in |-> st.players[i].in]],
             sm |-> SmFromP(st)]
JoinRecsC(j) == [i \in 1..Len(j) |-> [id |-> j[i][1], seat |-> j[i][2], chips |-> j[i][3]]]

(* ---- table membership: MOut / MLin of TableMembers over the recorded ops (joins arrive as JSON triples) ---- *)
OpsC(ops) == [i \in 1..Len(ops) |-> [op |-> ops[i].op, id |-> ops[i].id, seat |-> ops[i].seat, chips |-> ops[i].chips, ids |-> ops[i].ids,
                                      joins |-> JoinRecsC(ops[i].joins), res |-> ops[i].res]]

(* ---- bare seat manager ---- *)
SOut(st, o) ==
  CASE o.op = "assign" -> AssignOutcomes(st, o.map)
    [] o.op = "random" -> RandomAssignOutcomesN(st, Len(o.ids), {o.ids[i] : i \in 1..Len(o.ids)})
SCompat(st, post) == \A s \in SeatsOf(st) : Occ(st, s) => post.seat[s].id = st.seat[s].id
RECURSIVE SLin(_, _, _, _)
SLin(st, rem, ops, post) ==
  IF rem = {} THEN st = post
  ELSE \E i \in rem : \E o \in SOut(st, ops[i]) :
         o.res = ops[i].res /\ SCompat(o.st, post) /\ SLin(o.st, rem \ {i}, ops, post)

(* ---- simultaneous game actions: the accepted ones, in some order, are each the move of the player whose turn it then
   was (an accepted move passes the turn on, so a later caller may be accepted for the following turn) ---- *)
GameIdxOf(st, id) ==
  LET I == {i \in 1..Len(st.gpi) : st.gpi[i] >= 0 /\ st.gpi[i] < Len(st.players) /\ st.players[st.gpi[i] + 1].id = id}
  IN IF I = {} THEN -1 ELSE (CHOOSE i \in I : TRUE) - 1
RECURSIVE ActLin(_, _, _, _)
ActLin(s, rem, ops, st) ==
  IF rem = {} THEN TRUE
  ELSE \E i \in rem :
         /\ s.ev = "RoundStarted" /\ GameIdxOf(st, ops[i].id) = s.cur /\ ops[i].kind \in s.p[s.cur].allowed
         /\ ActLin(Apply(s, ops[i].kind, ops[i].chips), rem \ {i}, ops, st)

(* the table's own seat map (seat -> position in the list, -1 = empty) against the list *)
SeatMapOK(st) ==
  /\ Len(st.seatmap) = st.nseat
  /\ \A i \in 1..Len(st.players) : st.players[i].seat \in 0..(st.nseat - 1) /\ st.seatmap[st.players[i].seat + 1] = i - 1
  /\ \A s \in 1..Len(st.seatmap) : st.seatmap[s] # -1 => (st.seatmap[s] \in 0..(Len(st.players) - 1) /\ st.players[st.seatmap[s] + 1].seat = s - 1)

CheckLine(k) ==
  LET t == Trace[k] IN
  \* every call returns, the engine process survives (known finding, open: the table's auto-sit-in machinery -- a ready group
  \* re-armed under the engine lock, signalled and completed without it -- races with membership calls; the signatures are
  \* read off the goroutine stacks / the panic message by the harness)
  /\ Clause("C16_callsReturn", t.ev # "hang", IF t.sig \in {"syncsaga-recursive-rlock", "ready-on-nil-channel"} THEN "KF-C16-autoin-race" ELSE "", k)
  /\ Clause("C16_noCrash", t.ev # "crash", IF t.sig = "autoin-race-panic" THEN "KF-C16-autoin-race" ELSE "", k)
  /\ t.ev = "churn" => Clause("C16_consistentAfter", MConsistent(ToMC(t.st)), "", k)
  /\ t.ev = "batch" =>
       LET post == ToMC(t.st) IN
       /\ Clause("C16_consistentAfter", MConsistent(post), "", k)
       /\ Clause("C16_seatMapAgrees", SeatMapOK(t.st), "", k)
       /\ Clause("C16_membersSerializable", MLin(ToMC(t.pre), 1..Len(t.ops), OpsC(t.ops), post), "", k)
  /\ t.ev = "smbatch" =>
       LET post == SmFromJ(t.smst) IN
       /\ Clause("C16_smNoDoubleBooking", \A s, u \in SeatsOf(post) : (Occ(post, s) /\ Occ(post, u) /\ post.seat[s].id = post.seat[u].id) => s = u, "", k)
       /\ Clause("C16_smSerializable", t.smst.extra = 0 /\ SLin(SmFromJ(t.smpre), 1..Len(t.ops), t.ops, post), "", k)
  /\ t.ev = "actbatch" =>
       /\ Clause("C16_onlyMoverAccepted",
                 Len(t.pre.hand) = 1 /\ ActLin(StripWrapper(ToHand(t.pre.hand[1])), {i \in 1..Len(t.ops) : t.ops[i].res = "ok"}, t.ops, t.pre), "", k)
       /\ Clause("C16_moverAccepted", \E i \in 1..Len(t.ops) : t.ops[i].id = t.mover /\ t.ops[i].res = "ok", "", k)
  /\ t.ev = "actend" =>
       LET tot == LET RECURSIVE Sum(_) Sum(i) == IF i = 0 THEN 0 ELSE t.st.players[i].bank + Sum(i - 1) IN Sum(Len(t.st.players)) IN
       /\ Clause("C16_handSettles", t.st.status \in {"table_game_standby", "table_pausing"} /\ Len(t.st.hand) = 0, "", k)
       /\ Clause("C16_chipsConserved", tot = t.acc, "", k)
  /\ t.ev = "blocked" => Clause("C16_lockExcludes", t.note = "blocked", "", k)

Init == l = 1
Next == l <= Len(Trace) /\ l' = l + 1
Spec == Init /\ [][Next]_l
Verdict == l > Len(Trace) \/ CheckLine(l)
Done == TLCGet("stats").diameter = Len(Trace) + 1 \/ PrintT(<<"INCOMPLETE", TLCGet("stats").diameter, Len(Trace)>>)
=============================================================================
