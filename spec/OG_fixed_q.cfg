SPECIFICATION Spec
CONSTANTS
 Ids = {a, b}
 MaxSetups = 3
 MaxSignals = 4
 FreshRG = TRUE
INVARIANT AllFiresLegal AtMostOncePerSetup
CHECK_DEADLOCK FALSE
