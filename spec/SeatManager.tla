---------------------------- MODULE SeatManager ----------------------------
(***************************************************************************)
(* Implementation-shaped model of weedbox/pokertable seat_manager.         *)
(*                                                                         *)
(* Every public mutator of seatManager (one sm.mu critical section each)   *)
(* is a *function* from a state record to [res, st]; the same functions    *)
(* drive (1) the exhaustive model (Next below), (2) the step-conformance   *)
(* check of transitions recorded from the real code (SeatManagerTrace)     *)
(* and (3) the table-level model (Table.tla), which embeds a seat-manager  *)
(* state.                                                                  *)
(*                                                                         *)
(* State record:                                                           *)
(*   [n, rule, seat : 0..n-1 -> [id, in, btw, chips], dealer, sb, bb,      *)
(*    inited]                                                              *)
(* Transcribed from seat_manager_impl.go / seat_manager_internal.go.       *)
(* Deliberate deviations of the code from the listed properties are named  *)
(* KF_ names, so TLC can show both.                                       *)
(***************************************************************************)
EXTENDS Integers, FiniteSets, Sequences, TLC

CONSTANTS None          \* id stored in an empty seat

EmptySeat == [id |-> None, in |-> FALSE, btw |-> FALSE, chips |-> FALSE]
SeatsOf(st) == 0..(st.n - 1)
Occ(st, s)   == st.seat[s].id # None
Alive(st, s) == Occ(st, s) /\ st.seat[s].in /\ st.seat[s].chips            \* "in and has chips"
Act(st, s)   == Alive(st, s) /\ ~st.seat[s].btw                            \* SeatPlayer.Active()
Seated(st, p) == \E s \in SeatsOf(st) : st.seat[s].id = p
SeatOf(st, p) == CHOOSE s \in SeatsOf(st) : st.seat[s].id = p
EmptySeats(st) == {s \in SeatsOf(st) : ~Occ(st, s)}
ActiveSeats(st) == {s \in SeatsOf(st) : Act(st, s)}
AliveSeats(st) == {s \in SeatsOf(st) : Alive(st, s)}
ActiveCount(st) == Cardinality(ActiveSeats(st))
AliveCount(st) == Cardinality(AliveSeats(st))
MinOf(S) == CHOOSE x \in S : \A y \in S : x <= y

New(n, rule) == [n |-> n, rule |-> rule, seat |-> [s \in 0..(n-1) |-> EmptySeat],
                 dealer |-> -1, sb |-> -1, bb |-> -1, inited |-> FALSE]

(* isBetweenDealerBB(dealer, bb, target) -- verbatim, including its behaviour
   on bb = -1 (rotation with nobody else alive).                           *)
Between(st, d, b, t) ==
  IF st.rule = "short_deck" THEN FALSE
  ELSE \/ (b - d < 0 /\ \E i \in (d + 1)..(b + st.n - 1) : i % st.n = t)
       \/ (t < b /\ t > d)

(* circular scans: `for i := 1; i < MaxSeat; i++` -- the start seat itself
   is never examined.                                                      *)
NextScan(st, start, P(_, _)) ==
  LET c == {i \in 1..(st.n - 1) : P(st, (start + i) % st.n)}
  IN IF c = {} THEN -1 ELSE (start + MinOf(c)) % st.n
PrevScan(st, start, P(_, _)) ==
  LET c == {i \in 1..(st.n - 1) : P(st, (start + st.n - i) % st.n)}
  IN IF c = {} THEN -1 ELSE (start + st.n - MinOf(c)) % st.n

IsHU(st) == st.dealer = st.sb /\ st.bb # st.dealer

R(res, st) == [res |-> res, st |-> st]

-----------------------------------------------------------------------------
(* AssignSeats(map id -> seat).  m is a function with DOMAIN = set of ids. *)
NewSeatPlayer(st, p, s) ==
  [id |-> p, in |-> FALSE, chips |-> TRUE,
   btw |-> IF st.inited THEN Between(st, st.dealer, st.bb, s) ELSE FALSE]

AssignErrors(st, m) ==
  LET ids == DOMAIN m IN
  IF Cardinality(EmptySeats(st)) < Cardinality(ids) THEN {"ErrNotEnoughSeats"}
  ELSE LET loopErrs ==
             (IF \E a, b \in ids : a # b /\ m[a] = m[b] THEN {"ErrDuplicateSeats"} ELSE {})
             \cup (IF \E a \in ids : m[a] \in SeatsOf(st) /\ Occ(st, m[a]) /\ st.seat[m[a]].id # a
                   THEN {"ErrSeatAlreadyIsTaken"} ELSE {})
             \cup (IF \E a \in ids : m[a] \notin SeatsOf(st) THEN {"ErrUnavailableSeat"} ELSE {})
       IN IF loopErrs # {} THEN loopErrs
          ELSE IF \E a \in ids : Seated(st, a) THEN {"ErrDuplicatePlayers"}
          ELSE {}

AssignOK(st, m) ==
  [st EXCEPT !.seat = [s \in SeatsOf(st) |->
      IF \E a \in DOMAIN m : m[a] = s
      THEN NewSeatPlayer(st, CHOOSE a \in DOMAIN m : m[a] = s, s)
      ELSE st.seat[s]]]

(* set of possible outcomes (the error reported for a batch with several
   faults depends on Go map iteration order)                               *)
AssignOutcomes(st, m) ==
  IF AssignErrors(st, m) = {} THEN {R("ok", AssignOK(st, m))}
  ELSE {R(e, st) : e \in AssignErrors(st, m)}

(* RandomAssignSeats(ids): any injective placement on empty seats.  cnt is
   len(ids) as passed (a list may repeat an id), ids the set of ids in it.  *)
RandomAssignOutcomesN(st, cnt, ids) ==
  IF Cardinality(EmptySeats(st)) < cnt THEN {R("ErrNotEnoughSeats", st)}
  ELSE IF cnt # Cardinality(ids) \/ \E a \in ids : Seated(st, a) THEN {R("ErrDuplicatePlayers", st)}
  ELSE {R("ok", AssignOK(st, m)) :
          m \in {f \in [ids -> EmptySeats(st)] : \A a, b \in ids : a # b => f[a] # f[b]}}
RandomAssignOutcomes(st, ids) == RandomAssignOutcomesN(st, Cardinality(ids), ids)

RemoveF(st, ids) ==
  IF \E a \in ids : ~Seated(st, a) THEN R("ErrPlayerNotFound", st)
  ELSE R("ok", [st EXCEPT !.seat = [s \in SeatsOf(st) |->
                   IF st.seat[s].id \in ids THEN EmptySeat ELSE st.seat[s]]])

JoinF(st, ids) ==
  IF \E a \in ids : ~Seated(st, a) THEN R("ErrPlayerNotFound", st)
  ELSE R("ok", [st EXCEPT !.seat = [s \in SeatsOf(st) |->
                   IF st.seat[s].id \in ids THEN [st.seat[s] EXCEPT !.in = TRUE] ELSE st.seat[s]]])

SetChipsF(st, p, b) ==
  IF ~Seated(st, p) THEN R("ErrPlayerNotFound", st)
  ELSE R("ok", [st EXCEPT !.seat[SeatOf(st, p)].chips = b])

-----------------------------------------------------------------------------
(* InitPositions: `first` is the seat picked (random active seat, or the
   lowest active seat when isRandom = FALSE).                              *)
InitWith(st, first) ==
  IF st.rule = "short_deck"
  THEN [st EXCEPT !.dealer = first, !.sb = -1, !.bb = -1, !.inited = TRUE]
  ELSE IF ActiveCount(st) = 2
       THEN LET o == CHOOSE s \in ActiveSeats(st) : s # first
            IN [st EXCEPT !.bb = first, !.dealer = o, !.sb = o, !.inited = TRUE]
       ELSE LET nsb == PrevScan(st, first, Act)
                nd  == PrevScan(st, nsb, Act)
            IN [st EXCEPT !.bb = first, !.sb = nsb, !.dealer = nd, !.inited = TRUE]

InitOutcomes(st, random) ==
  IF st.rule \notin {"default", "short_deck"} THEN {R("ErrUnableToInitPositions", st)}
  ELSE IF st.inited THEN {R("ErrAlreadyInitPositions", st)}
  ELSE IF ActiveCount(st) < 2 THEN {R("ErrUnableToInitPositions", st)}
  ELSE IF random THEN {R("ok", InitWith(st, f)) : f \in ActiveSeats(st)}
       ELSE {R("ok", InitWith(st, MinOf(ActiveSeats(st))))}

-----------------------------------------------------------------------------
(* RotatePositions.  Reflag = "update seat_player.IsBetweenDealerBB before":
   only for occupied seats that are not Active().                          *)
Reflag(st, d, b) ==
  [st EXCEPT !.seat = [s \in SeatsOf(st) |->
      IF Occ(st, s) /\ ~Act(st, s) THEN [st.seat[s] EXCEPT !.btw = Between(st, d, b, s)]
      ELSE st.seat[s]]]

RotateF(st) ==
  IF ~st.inited THEN R("ErrUnableToRotatePositions", st)
  ELSE IF st.rule = "default" THEN
    LET wasHU == IsHU(st)
        nbb == NextScan(st, st.bb, Alive)
        s1  == Reflag(st, st.sb, nbb)
        ac  == ActiveCount(s1)
    IN IF ac < 2 THEN R("ErrUnableToRotatePositions", s1)     \* flags already rewritten (sic)
       ELSE IF ac = 2 THEN
          LET nd == NextScan(s1, nbb, Act)
          IN R("ok", [s1 EXCEPT !.bb = nbb, !.dealer = nd, !.sb = nd])
       ELSE IF wasHU THEN
          LET nd == PrevScan(s1, st.bb, Alive)
              s2 == Reflag(s1, nd, nbb)
          IN R("ok", [s2 EXCEPT !.bb = nbb, !.sb = st.bb, !.dealer = nd])
       ELSE R("ok", [s1 EXCEPT !.bb = nbb, !.sb = st.bb, !.dealer = st.sb])
  ELSE IF st.rule = "short_deck" THEN
    IF ActiveCount(st) < 2 THEN R("ErrUnableToRotatePositions", st)
    ELSE R("ok", [st EXCEPT !.dealer = NextScan(st, st.dealer, Act), !.sb = -1, !.bb = -1])
  ELSE R("ErrUnableToRotatePositions", st)

=============================================================================
