------------------------------- MODULE Conc -------------------------------
(***************************************************************************)
(* C16 at lock granularity.  K callers run membership operations of the    *)
(* table engine (PlayerReserve, PlayersLeave, UpdateTablePlayers) -- or,   *)
(* in the "sm" universes, bare seat-manager assignments -- at the same     *)
(* time.  Every operation is cut exactly where the code can be parked      *)
(* (verif hook points):                                                    *)
(*                                                                         *)
(*   reserve (new player)   Add1 | members.add.mid    | Add2               *)
(*   reserve (seated: re-buy)  one step                                    *)
(*   leave                  RemoveSeats | members.remove.mid | list filter *)
(*   update(leave, join)    RemoveSeats | members.remove.mid |             *)
(*                          list filter ; Add1 | members.add.mid | Add2    *)
(*   AssignSeats            validation | assign.validated | the writes     *)
(*   RandomAssignSeats      seats drawn + validation | random.validated |  *)
(*                          the writes                                     *)
(*                                                                         *)
(* te.lock is the variable `lock`, sm.mu the variable `smlock`.  Whether   *)
(* an operation takes its lock is a CONSTANT (LockReserve, LockLeave,      *)
(* LockUpdate, LockSM): with all of them TRUE the model is the design and  *)
(* TLC checks that every terminal state of every interleaving of every     *)
(* batch is explained by some serial order of the sequential specification *)
(* (TableMembers!MLin / SLin below -- the very operators ConcTrace applies *)
(* to batches recorded from the real engine) and satisfies C03.  With one  *)
(* of them FALSE (a lock forgotten at one site) TLC enumerates the         *)
(* interleavings that are NOT serialisable; `Emit` prints each as a JSON   *)
(* schedule, and `vh sched` forces it on the real code: the code either    *)
(* refuses the schedule (the second caller blocks on the lock -- what the  *)
(* lock is for) or runs it, and then ConcTrace judges the recorded results.*)
(***************************************************************************)
EXTENDS TableMembers, Json

CONSTANTS N,             \* seats
          Players,       \* ids
          K,             \* concurrent callers
          Universe,      \* "table" | "tableSmall" | "sm"  (which operations the callers draw from)
          MaxPre,        \* players seated before the batch
          LockReserve, LockLeave, LockUpdate, LockSM

VARIABLES ms,        \* [n, players, sm]   the table's list and the seat manager
          pre,       \* ms before the batch
          ops,       \* 1..K -> op record (res filled in when the call returns)
          pc,        \* 1..K -> "start" | "addmid" | "rmmid" | "urmmid" | "smmid" | "done"
          pend,      \* 1..K -> seats drawn by a bare assignment between validation and write
          lock,      \* 0 or the caller inside te.lock
          smlock,    \* 0 or the caller inside sm.mu
          hist       \* the schedule: which caller took each step
vars == <<ms, pre, ops, pc, pend, lock, smlock, hist>>
Procs == 1..K

Op(op, id, seat, chips, ids, joins, pairs) ==
  [op |-> op, id |-> id, seat |-> seat, chips |-> chips, ids |-> ids, joins |-> joins, pairs |-> pairs, res |-> ""]
J(id, seat, chips) == [id |-> id, seat |-> seat, chips |-> chips]
FixedSeats == {0, N - 1}
ReserveOps(S) == {Op("reserve", p, s, 1, <<>>, <<>>, <<>>) : p \in Players, s \in S}
LeaveOps1 == {Op("leave", "", -1, 0, <<p>>, <<>>, <<>>) : p \in Players}
LeaveOps2 == {Op("leave", "", -1, 0, <<p, q>>, <<>>, <<>>) : p \in Players, q \in Players}
UpdateOps == {Op("update", "", -1, 0, <<p>>, <<J(q, s, 1)>>, <<>>) : p \in Players, q \in Players, s \in {-1, 0}}
            \cup {Op("update", "", -1, 0, <<>>, <<J(p, 0, 1), J(q, -1, 0)>>, <<>>) : p \in Players, q \in Players}
SmOps == {Op("assign", "", -1, 0, <<>>, <<>>, <<[id |-> p, seat |-> s]>>) : p \in Players, s \in 0..N}
         \cup {Op("assign", "", -1, 0, <<>>, <<>>, <<[id |-> x[1], seat |-> 0], [id |-> x[2], seat |-> 1]>>) : x \in {y \in Players \X Players : y[1] # y[2]}}
         \cup {Op("random", "", -1, 0, <<p>>, <<>>, <<>>) : p \in Players}
         \cup {Op("random", "", -1, 0, <<p, q>>, <<>>, <<>>) : p \in Players, q \in Players}
OpU == CASE Universe = "table" -> ReserveOps({-1} \cup FixedSeats) \cup LeaveOps1 \cup LeaveOps2 \cup UpdateOps
         [] Universe = "tableSmall" -> ReserveOps({-1, 0}) \cup LeaveOps1
         [] Universe = "sm" -> SmOps

(* states before the batch: up to MaxPre players, in every list order, on every choice of seats *)
Inj(k) == {f \in [1..k -> 0..(N - 1)] : \A a, b \in 1..k : a # b => f[a] # f[b]}
DistinctSeqs(k) == {q \in [1..k -> Players] : \A a, b \in 1..k : a # b => q[a] # q[b]}
MkPre(q, f) ==
  [n |-> N,
   players |-> [k \in 1..Len(q) |-> [id |-> q[k], seat |-> f[k], bank |-> 1, in |-> FALSE]],
   sm |-> [New(N, "default") EXCEPT !.seat = [s \in 0..(N - 1) |->
             IF \E k \in 1..Len(q) : f[k] = s
             THEN [id |-> q[CHOOSE k \in 1..Len(q) : f[k] = s], in |-> FALSE, btw |-> FALSE, chips |-> TRUE]
             ELSE EmptySeat]]]
PreStates == UNION {{MkPre(q, f) : q \in DistinctSeqs(k), f \in Inj(k)} : k \in 0..MaxPre}

Locked(o) == CASE o.op = "reserve" -> LockReserve [] o.op = "leave" -> LockLeave [] o.op = "update" -> LockUpdate [] OTHER -> FALSE
MapOf(pairs) == [a \in {pairs[k].id : k \in 1..Len(pairs)} |-> pairs[CHOOSE k \in 1..Len(pairs) : pairs[k].id = a].seat]

Init == /\ pre \in PreStates /\ ms = pre
        /\ ops \in [Procs -> OpU]
        /\ pc = [i \in Procs |-> "start"] /\ pend = [i \in Procs |-> <<>>]
        /\ lock = 0 /\ smlock = 0 /\ hist = <<>>

(* one step of caller i: it ends at a hook point (pc2 # "done") or with the call's return *)
Fin(i, pc2, r, ms2, lock2) ==
  /\ ms' = ms2 /\ pc' = [pc EXCEPT ![i] = pc2] /\ lock' = lock2
  /\ ops' = [ops EXCEPT ![i].res = IF pc2 = "done" THEN r ELSE @]
  /\ hist' = Append(hist, i) /\ UNCHANGED <<pre, smlock, pend>>
Rel(i) == IF lock = i THEN 0 ELSE lock
Acq(i) == IF Locked(ops[i]) THEN i ELSE lock
MayEnter(i) == ~Locked(ops[i]) \/ lock = 0

AddStart(i, joins, st, lk) ==       \* Add1 on state st; lk = the lock variable while the caller is inside
  \E a \in Add1(st, joins) :
     IF a.res # "ok" THEN Fin(i, "done", a.res, [st EXCEPT !.sm = a.st], IF lk = i THEN 0 ELSE lk)
     ELSE Fin(i, "addmid", "", [st EXCEPT !.sm = a.st], lk)

TableStep(i) ==
  LET o == ops[i] IN
  \/ /\ pc[i] = "start" /\ o.op = "reserve" /\ MayEnter(i)
     /\ IF o.id \in MIds(ms)
        THEN \E r \in ReserveOutcomes(ms, o.id, o.seat, o.chips) : Fin(i, "done", r.res, r.st, lock)             \* re-buy
        ELSE IF Len(ms.players) = ms.n THEN Fin(i, "done", "ErrTableNoEmptySeats", ms, lock)
        ELSE AddStart(i, <<J(o.id, o.seat, o.chips)>>, ms, Acq(i))
  \/ /\ pc[i] = "start" /\ o.op = "update" /\ Len(o.ids) = 0 /\ MayEnter(i)
     /\ AddStart(i, o.joins, ms, Acq(i))
  \/ /\ pc[i] = "addmid"
     /\ LET joins == IF o.op = "reserve" THEN <<J(o.id, o.seat, o.chips)>> ELSE o.joins
            r == Add2(ms, joins)
        IN Fin(i, "done", r.res, r.st, Rel(i))
  \/ /\ pc[i] = "start" /\ o.op \in {"leave", "update"} /\ Len(o.ids) > 0 /\ MayEnter(i)
     /\ LET r == RemoveF(ms.sm, SeqRange(o.ids)) IN
        IF r.res # "ok" THEN Fin(i, "done", "ErrPlayerNotFound", ms, lock)
        ELSE Fin(i, IF o.op = "leave" THEN "rmmid" ELSE "urmmid", "", [ms EXCEPT !.sm = r.st], Acq(i))
  \/ /\ pc[i] = "rmmid"
     /\ Fin(i, "done", "ok", RemovePlayers(ms, SeqRange(o.ids)), Rel(i))
  \/ /\ pc[i] = "urmmid"
     /\ LET st == RemovePlayers(ms, SeqRange(o.ids)) IN
        IF Len(o.joins) = 0 THEN Fin(i, "done", "ok", st, Rel(i))
        ELSE AddStart(i, o.joins, st, lock)

(* the bare seat manager: with sm.mu the two halves are one critical section *)
SmFin(i, pc2, r, sm2, lk2, pd) ==
  /\ ms' = [ms EXCEPT !.sm = sm2] /\ pc' = [pc EXCEPT ![i] = pc2] /\ smlock' = lk2
  /\ ops' = [ops EXCEPT ![i].res = IF pc2 = "done" THEN r ELSE @]
  /\ pend' = [pend EXCEPT ![i] = pd]
  /\ hist' = Append(hist, i) /\ UNCHANGED <<pre, lock>>
Write(sm, m) == AssignOK(sm, m)          \* the writes after the hook point: unconditional, whatever the seats hold by now
SmStep(i) ==
  LET o == ops[i]
      inL == IF LockSM THEN i ELSE smlock IN
  \/ /\ pc[i] = "start" /\ o.op = "assign" /\ (~LockSM \/ smlock = 0)
     /\ LET m == MapOf(o.pairs)
            errs == AssignErrors(ms.sm, m) IN
        IF errs # {} THEN \E e \in errs : SmFin(i, "done", e, ms.sm, smlock, <<>>)
        ELSE SmFin(i, "smmid", "", ms.sm, inL, m)
  \/ /\ pc[i] = "start" /\ o.op = "random" /\ (~LockSM \/ smlock = 0)
     /\ LET ids == SeqRange(o.ids) IN
        \E r \in RandomAssignOutcomesN(ms.sm, Len(o.ids), ids) :
           IF r.res # "ok" THEN SmFin(i, "done", r.res, ms.sm, smlock, <<>>)
           ELSE SmFin(i, "smmid", "", ms.sm, inL, [a \in ids |-> SeatOf(r.st, a)])      \* the seats are drawn before the hook point
  \/ /\ pc[i] = "smmid"
     /\ SmFin(i, "done", "ok", Write(ms.sm, pend[i]), IF smlock = i THEN 0 ELSE smlock, <<>>)

Next == \E i \in Procs : IF Universe = "sm" THEN SmStep(i) ELSE TableStep(i)
Spec == Init /\ [][Next]_vars

AllDone == \A i \in Procs : pc[i] = "done"
OpSeq == [i \in 1..K |-> ops[i]]

(* the serial specification of the bare seat manager (as in ConcTrace) *)
SOutM(st, o) ==
  CASE o.op = "assign" -> AssignOutcomes(st, MapOf(o.pairs))
    [] o.op = "random" -> RandomAssignOutcomesN(st, Len(o.ids), SeqRange(o.ids))
RECURSIVE SLinM(_, _, _, _)
SLinM(st, rem, os, post) ==
  IF rem = {} THEN st = post
  ELSE \E i \in rem : \E o \in SOutM(st, os[i]) : o.res = os[i].res /\ SLinM(o.st, rem \ {i}, os, post)
NoDoubleBooking(sm) == \A s, u \in SeatsOf(sm) : (Occ(sm, s) /\ Occ(sm, u) /\ sm.seat[s].id = sm.seat[u].id) => s = u
NobodyLost(sm) == \A i \in Procs : ops[i].res = "ok" =>
                     \A a \in (IF ops[i].op = "assign" THEN DOMAIN MapOf(ops[i].pairs) ELSE SeqRange(ops[i].ids)) : Seated(sm, a)

Serializable ==
  IF Universe = "sm" THEN SLinM(pre.sm, Procs, OpSeq, ms.sm) /\ NoDoubleBooking(ms.sm) /\ NobodyLost(ms.sm)
  ELSE MLin(pre, Procs, OpSeq, ms) /\ MConsistent(ms)

(* the design: whatever the interleaving, the batch is explained by a serial order and C03 holds afterwards *)
I_Serializable == AllDone => Serializable
(* mutual exclusion as the code has it *)
I_OneInside == Cardinality({i \in Procs : pc[i] \in {"addmid", "rmmid", "urmmid"} /\ Locked(ops[i])}) <= 1
I_OneInsideSM == LockSM => Cardinality({i \in Procs : pc[i] = "smmid"}) <= 1
(* no caller is left waiting for ever: the batch always completes *)
L_Completes == <>[]AllDone
FairSpec == Spec /\ WF_vars(Next)

(* schedule printer for the configurations with a lock left out: one JSON line per non-serialisable terminal state *)
PreList(st) == [k \in 1..Len(st.players) |-> [id |-> st.players[k].id, seat |-> st.players[k].seat]]
Emit == (AllDone /\ ~Serializable) =>
          PrintT(<<"SCHED", ToJson([universe |-> Universe, n |-> N, pre |-> PreList(pre), ops |-> OpSeq, sched |-> hist])>>)
V == <<ms, pre, ops, pc, pend, lock, smlock>>
=============================================================================
