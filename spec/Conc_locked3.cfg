SPECIFICATION Spec
CONSTANTS
 None = ""
 N = 3
 Players = {"a", "b", "c"}
 K = 3
 Universe = "tableSmall"
 MaxPre = 2
 LockReserve = TRUE
 LockLeave = TRUE
 LockUpdate = TRUE
 LockSM = TRUE
INVARIANTS I_Serializable I_OneInside
VIEW V
CHECK_DEADLOCK FALSE
