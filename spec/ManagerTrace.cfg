SPECIFICATION Spec
INVARIANT Verdict
POSTCONDITION Done
CHECK_DEADLOCK FALSE
