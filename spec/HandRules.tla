---------------------------- MODULE HandRules ----------------------------
(***************************************************************************)
(* The no-limit hand rules the table engine delegates to                   *)
(* (github.com/weedbox/pokerface v0.1.10, reached through                  *)
(* native_game_backend.go), transcribed as functions on a hand-state       *)
(* record s:                                                               *)
(*   [np, ante, dealerB, sb, bb,              -- fixed for the hand        *)
(*    ev, round, cur, raiser, cw, prs, minibet,                            *)
(*    p : 0..np-1 -> [pos, bankroll, init, stack, wager, pot, fold, acted, *)
(*                    did, allowed]]                                       *)
(* Every backend call is one function (ReadyForAllF, PayAnteF, PayBlindsF, *)
(* NextF, DoFold .. DoRaise; Apply dispatches).  Two bindings to the code: *)
(*  - vh hand-dfs explores the REAL backend's whole transition system for  *)
(*    small stacks; HandTrace.tla checks every real transition against     *)
(*    Apply (conformance) and the hand-level property clauses (verdict);   *)
(*  - TableTrace.tla applies the same functions to every hand state the    *)
(*    table engine publishes.                                              *)
(* Quirks of pokerface are transcribed, not repaired (see DESIGN.md        *)
(* appendix A): folded / all-in players are asked and must "pass"; a short *)
(* all-in clears everybody's acted flag; with dealer = sb = 0 < bb the     *)
(* blinds are never collected.                                             *)
(***************************************************************************)
EXTENDS Integers, Sequences, FiniteSets, TLC

Idx(s) == 0..(s.np - 1)
Pos(s, i) == s.p[i].pos
MaxI(a, b) == IF a > b THEN a ELSE b
MaxOf(S) == CHOOSE x \in S : \A y \in S : x >= y

NewP(b, pos) == [pos |-> pos, bankroll |-> b, init |-> b, stack |-> b, wager |-> 0, pot |-> 0, fold |-> FALSE,
                 acted |-> FALSE, did |-> "", allowed |-> {}]
AliveN(s) == Cardinality({i \in Idx(s) : ~s.p[i].fold})
Movable(s) == Cardinality({i \in Idx(s) : ~s.p[i].fold /\ s.p[i].stack # 0})
NextIdx(s, c) == (c + 1) % s.np
(* Dealer(): the last entry (in index order) carrying the dealer label *)
DealerIdx(s) == LET D == {i \in Idx(s) : "dealer" \in Pos(s, i)} IN IF D = {} THEN 0 ELSE MaxOf(D)

Available(s, i) ==
  LET q == s.p[i] IN
  IF q.fold THEN {"pass"}
  ELSE IF q.stack = 0 THEN {"pass"}
  ELSE {"allin"} \cup
       (IF q.wager < s.cw
        THEN {"fold"} \cup (IF q.init > s.cw
                            THEN {"call"} \cup (IF q.init > s.cw + s.prs THEN {"raise"} ELSE {})
                            ELSE {})
        ELSE {"check"} \cup (IF q.init >= s.minibet
                             THEN (IF s.cw = 0 THEN {"bet"} ELSE {"raise"}) ELSE {}))

ClearAllowedAndActed(s) == [s EXCEPT !.p = [i \in Idx(s) |-> [s.p[i] EXCEPT !.acted = FALSE, !.allowed = {}]]]
ResetActed(s) == [s EXCEPT !.p = [i \in Idx(s) |-> [s.p[i] EXCEPT !.acted = FALSE]]]
(* SetCurrentPlayer: clear allowed of the old current player, set cur, compute allowed *)
SetCur(s, i) ==
  LET s1 == IF s.cur # -1 THEN [s EXCEPT !.p[s.cur].allowed = {}] ELSE s
      s2 == [s1 EXCEPT !.cur = i]
  IN [s2 EXCEPT !.p[i].allowed = Available(s2, i)]
BecomeRaiser(s, i) ==
  LET s1 == [s EXCEPT !.raiser = i] IN
  LET s2 == ResetActed(s1) IN [s2 EXCEPT !.p[i].acted = TRUE]

(* player.pay(chips, isWager) *)
Pay(s, i, chips, isWager) ==
  LET q == s.p[i] IN
  IF q.stack <= chips THEN
     LET raised == q.init - s.cw
         minRaise == s.cw + s.prs
         s1 == [s EXCEPT !.p[i].did = "allin", !.p[i].wager = q.init, !.p[i].stack = 0]
     IN IF ~isWager THEN s1
        ELSE LET s2 == IF q.init > s.cw THEN [s1 EXCEPT !.cw = q.init] ELSE s1
             IN IF raised >= minRaise THEN BecomeRaiser(s2, i) ELSE ResetActed(s2)
  ELSE
     LET w == q.wager + chips
         s1 == [s EXCEPT !.p[i].wager = w, !.p[i].stack = q.init - w]
     IN IF isWager /\ s.cw < w THEN BecomeRaiser([s1 EXCEPT !.cw = w], i) ELSE s1

ResetRoundStatus(s) == [s EXCEPT !.prs = 0, !.cw = 0, !.raiser = DealerIdx(s), !.cur = DealerIdx(s)]
ResetAllPlayerStatus(s) ==
  [s EXCEPT !.p = [i \in Idx(s) |-> LET q == s.p[i] IN
       [q EXCEPT !.allowed = {}, !.pot = q.pot + q.wager, !.wager = 0, !.init = q.stack,
                 !.did = IF q.fold THEN "fold" ELSE IF q.stack = 0 THEN "allin" ELSE ""]]]

RoundClosed(s) == [ClearAllowedAndActed(s) EXCEPT !.ev = "RoundClosed"]
RequestPlayerAction(s) ==
  IF AliveN(s) = 1 THEN RoundClosed(s)
  ELSE IF Movable(s) = 0 THEN RoundClosed(s)
  ELSE LET n == NextIdx(s, s.cur) IN
       IF s.p[n].acted THEN RoundClosed(s)
       ELSE [SetCur(s, n) EXCEPT !.ev = "RoundStarted"]
RequestReady(s) == [ClearAllowedAndActed(s) EXCEPT !.ev = "ReadyRequested"]
PrepareRound(s) ==
  IF s.round = "preflop" THEN RequestReady(s)
  ELSE IF Movable(s) <= 1 THEN RoundClosed(s) ELSE RequestReady(s)
EnterPreflop(s) ==
  LET s1 == [s EXCEPT !.round = "preflop"] IN
  IF s.dealerB = 0 /\ s.sb = 0 /\ s.bb > 0 THEN PrepareRound([s1 EXCEPT !.ev = "BlindsPaid"])
  ELSE [s1 EXCEPT !.ev = "BlindsRequested"]
StartRound(s) ==
  LET s0 == ClearAllowedAndActed(s) IN
  IF s0.round = "preflop" THEN
     IF Movable(s0) = 0 THEN RoundClosed(s0)
     ELSE LET RECURSIVE Walk(_, _)
              Walk(st, k) == IF k = 0 THEN st
                             ELSE LET n == NextIdx(st, st.cur) IN
                                  IF "bb" \in Pos(st, n) THEN SetCur(st, n)
                                  ELSE Walk(SetCur(st, n), k - 1)
          IN RequestPlayerAction([Walk(SetCur(s0, DealerIdx(s0)), s0.np) EXCEPT !.ev = "RoundStarted"])
  ELSE RequestPlayerAction([SetCur(s0, DealerIdx(s0)) EXCEPT !.ev = "RoundStarted"])

ReadyForAllF(s) ==
  LET s1 == ClearAllowedAndActed(s) IN
  IF s1.round = "" THEN (IF s.ante > 0 THEN [s1 EXCEPT !.ev = "AnteRequested"] ELSE EnterPreflop(s1))
  ELSE StartRound(s1)
PayAnteF(s) ==
  LET RECURSIVE PA(_, _)
      PA(st, k) == IF k = s.np THEN st ELSE PA(Pay(st, k, s.ante, FALSE), k + 1)
      s1 == ClearAllowedAndActed(PA(s, 0))
      s2 == ResetRoundStatus(ResetAllPlayerStatus(s1))
  IN EnterPreflop(s2)
BlindOf(s, i) == IF s.bb > 0 /\ "bb" \in Pos(s, i) THEN s.bb
                 ELSE IF s.sb > 0 /\ "sb" \in Pos(s, i) THEN s.sb
                 ELSE IF s.dealerB > 0 /\ "dealer" \in Pos(s, i) THEN s.dealerB ELSE 0
PayBlindsF(s) ==
  LET RECURSIVE PB(_, _)
      PB(st, k) == IF k = s.np THEN st
                   ELSE LET c0 == BlindOf(s, k)
                            c == IF st.p[k].stack < c0 THEN st.p[k].stack ELSE c0
                        IN PB(Pay(st, k, c, TRUE), k + 1)
      s1 == PB(s, 0)
      s2 == [s1 EXCEPT !.prs = IF s.bb > 0 THEN s.bb ELSE s.dealerB]
  IN PrepareRound([ClearAllowedAndActed(s2) EXCEPT !.ev = "BlindsPaid"])
NextRoundName(r) == IF r = "preflop" THEN "flop" ELSE IF r = "flop" THEN "turn" ELSE "river"
NextF(s) ==
  LET s1 == ResetAllPlayerStatus(ResetRoundStatus(s)) IN
  IF AliveN(s1) = 1 \/ s1.round = "river" THEN [s1 EXCEPT !.ev = "GameClosed"]
  ELSE LET s2 == [s1 EXCEPT !.round = NextRoundName(s1.round)]
           s3 == SetCur(s2, DealerIdx(s2))   \* StartAtDealer in InitializeRound
       IN PrepareRound(s3)
Resume(s) == RequestPlayerAction(s)
DoFold(s, i) == Resume([s EXCEPT !.p[i].fold = TRUE, !.p[i].did = "fold", !.p[i].acted = TRUE])
DoCheck(s, i) == Resume([s EXCEPT !.p[i].did = "check", !.p[i].acted = TRUE])
DoPass(s, i) == Resume([s EXCEPT !.p[i].acted = TRUE])
DoCall(s, i) ==
  LET d0 == s.cw - s.p[i].wager
      d == IF s.cw < s.bb THEN s.bb - s.p[i].wager ELSE d0
      s1 == [s EXCEPT !.p[i].did = "call", !.p[i].acted = TRUE]
  IN Resume(Pay(s1, i, d, TRUE))
DoBet(s, i, c) ==
  LET s1 == [s EXCEPT !.p[i].did = "bet", !.p[i].acted = TRUE]
      s2 == Pay(s1, i, c, TRUE)
  IN Resume([s2 EXCEPT !.prs = c])
DoAllin(s, i) ==
  LET s1 == [s EXCEPT !.p[i].did = "allin", !.p[i].acted = TRUE]
      raised == s.p[i].init - s.cw
      s2 == IF raised >= s.prs THEN [s1 EXCEPT !.prs = raised] ELSE s1
  IN Resume(Pay(s2, i, s2.p[i].stack, TRUE))
DoRaise(s, i, lvl) ==
  IF lvl = s.cw THEN DoCall(s, i)
  ELSE IF lvl >= s.p[i].init \/ lvl - s.cw < s.prs THEN DoAllin(s, i)
  ELSE LET s1 == [s EXCEPT !.p[i].did = "raise", !.p[i].acted = TRUE, !.prs = lvl - s.cw]
       IN Resume(Pay(s1, i, lvl - s.p[i].wager, TRUE))

\* ---- one backend call as a function ------------------------------------------
AutoKind(s) == CASE s.ev = "ReadyRequested" -> "readyall" [] s.ev = "AnteRequested" -> "ante"
                 [] s.ev = "BlindsRequested" -> "blinds" [] s.ev = "RoundClosed" -> "next" [] OTHER -> "none"
Apply(s, a, n) ==
  CASE a = "readyall" -> ReadyForAllF(s)
    [] a = "ante"   -> PayAnteF(s)
    [] a = "blinds" -> PayBlindsF(s)
    [] a = "next"   -> NextF(s)
    [] a = "fold"   -> DoFold(s, s.cur)
    [] a = "check"  -> DoCheck(s, s.cur)
    [] a = "pass"   -> DoPass(s, s.cur)
    [] a = "call"   -> DoCall(s, s.cur)
    [] a = "allin"  -> DoAllin(s, s.cur)
    [] a = "bet"    -> DoBet(s, s.cur, n)
    [] a = "raise"  -> DoRaise(s, s.cur, n)
\* the moves the player to act may submit (amounts bounded by the stack)
Moves(s) ==
  IF s.ev # "RoundStarted" THEN {}
  ELSE LET al == s.p[s.cur].allowed IN
       {<<a, 0>> : a \in al \cap {"fold", "check", "pass", "call", "allin"}}
       \cup (IF "bet" \in al THEN {<<"bet", c>> : c \in 1..s.p[s.cur].init} ELSE {})
       \cup (IF "raise" \in al THEN {<<"raise", lv>> : lv \in (s.cw + 1)..s.p[s.cur].init} ELSE {})

\* the state CreateGame returns (event ReadyRequested) for given stacks and labels
NewHand(stacks, labels, ante, dealerB, sb, bb) ==
  LET D == {i \in 0..(Len(stacks) - 1) : "dealer" \in labels[i + 1]}
      d == IF D = {} THEN 0 ELSE MaxOf(D)      \* Initialize: ResetRoundStatus puts raiser and current player on the dealer
  IN [np |-> Len(stacks), ante |-> ante, dealerB |-> dealerB, sb |-> sb, bb |-> bb,
      ev |-> "ReadyRequested", round |-> "", cur |-> d, raiser |-> d, cw |-> 0, prs |-> 0, minibet |-> MaxI(dealerB, bb),
      p |-> [i \in 0..(Len(stacks) - 1) |-> NewP(stacks[i + 1], labels[i + 1])]]
StdLabels(n) == [i \in 1..n |-> IF n = 2 THEN (IF i = 1 THEN {"dealer", "sb"} ELSE {"bb"})
                                ELSE (IF i = 1 THEN {"dealer"} ELSE IF i = 2 THEN {"sb"} ELSE IF i = 3 THEN {"bb"} ELSE {})]

SumP(s, f(_)) == LET RECURSIVE Sum(_) Sum(k) == IF k = s.np THEN 0 ELSE f(s.p[k]) + Sum(k + 1) IN Sum(0)
InPlay(q) == q.stack + q.wager + q.pot
BankOfP(q) == q.bankroll
Total(s) == SumP(s, InPlay)
Bank(s) == SumP(s, BankOfP)
=============================================================================
