SPECIFICATION SimSpec
CONSTANTS
  Players = {"p1", "p2", "p3"}
  MinP = 2
  MaxHands = 3
  Levels <- LevelsDef
  Quiet = FALSE
  ExtSetUp = TRUE
  WithLeave = TRUE
  KF_OpenAfterClose = FALSE
  KF_GuardOnVisibleOnly = FALSE
 KF_SurvivorsOnly = FALSE
 KF_RetryUnguarded = FALSE
 KF_CloneSwap = FALSE
 MaxRetry = 2
  D = 40
