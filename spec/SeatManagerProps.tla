------------------------- MODULE SeatManagerProps -------------------------
(***************************************************************************)
(* Property layer for the seat manager: exactly what C03 (seat-manager     *)
(* part), C04 and C05 (flag part) state, as predicates over                *)
(* (pre-state, operation, result, post-state).  Used                       *)
(*   - as action properties when TLC model-checks SeatManagerMC,           *)
(*   - as the verdict predicates evaluated over transitions recorded from  *)
(*     the real seat_manager (SeatManagerTrace).                           *)
(* Every clause has a name "Cxx_..." that is printed when it fails.        *)
(***************************************************************************)
EXTENDS SeatManager

(* clockwise successor / predecessor over ALL n seats (i = 1..n, so the scan
   comes back to the start seat last) -- the rule as the property states it,
   independent of how the code scans.                                      *)
TrueNext(st, start, P(_, _)) ==
  LET c == {i \in 1..st.n : P(st, (start + i) % st.n)}
  IN IF c = {} THEN -1 ELSE (start + MinOf(c)) % st.n
TruePrev(st, start, P(_, _)) ==
  LET c == {i \in 1..st.n : P(st, (start + st.n - i) % st.n)}
  IN IF c = {} THEN -1 ELSE (start + st.n - MinOf(c)) % st.n

Buttons(st) == <<st.dealer, st.sb, st.bb>>

IsRotateOK(op, res)      == op = "rotate" /\ res = "ok"
IsRotateRefused(pre, op, res) == op = "rotate" /\ res # "ok" /\ pre.inited

(* ---- C04, default rule ------------------------------------------------ *)
RD(pre, op, res) == IsRotateOK(op, res) /\ pre.rule = "default"

C04_bbNext(pre, op, res, post) ==
  RD(pre, op, res) => post.bb = TrueNext(pre, pre.bb, Alive) /\ post.bb # pre.bb
C04_bbDealtIn(pre, op, res, post) ==
  RD(pre, op, res) => post.bb \in SeatsOf(post) /\ Act(post, post.bb)
C04_atLeastTwo(pre, op, res, post) ==
  IsRotateOK(op, res) => ActiveCount(post) >= 2
C04_ringSB(pre, op, res, post) ==
  RD(pre, op, res) /\ ActiveCount(post) >= 3 => post.sb = pre.bb
C04_ringDealer(pre, op, res, post) ==
  RD(pre, op, res) /\ ActiveCount(post) >= 3 =>
     post.dealer = (IF IsHU(pre) THEN TruePrev(post, post.sb, Alive) ELSE pre.sb)
C04_ringDistinct(pre, op, res, post) ==
  RD(pre, op, res) /\ ActiveCount(post) >= 3 => Cardinality({post.dealer, post.sb, post.bb}) = 3
C04_headsUp(pre, op, res, post) ==
  RD(pre, op, res) /\ ActiveCount(post) = 2 =>
     /\ post.dealer = post.sb /\ post.dealer # post.bb
     /\ post.dealer \in SeatsOf(post) /\ Act(post, post.dealer)
C04_refusedMovesNothing(pre, op, res, post) ==
  op = "rotate" /\ res # "ok" => Buttons(post) = Buttons(pre)
C04_refusedOnlyIfFew(pre, op, res, post) ==
  IsRotateRefused(pre, op, res) => AliveCount(pre) < 2
(* "for every history": between hands the button seats are moved by the rotation rule and by nothing else -- no membership
   operation (seating, leaving, sitting in, chips) moves them or forgets that they were drawn, as long as somebody is left
   at the table to be wronged by a fresh draw                                                                        *)
C04_onlyRotationMovesButtons(pre, op, res, post) ==
  (op \notin {"rotate", "init"} /\ pre.inited /\ \E s \in SeatsOf(post) : Occ(post, s)) =>
     post.inited /\ Buttons(post) = Buttons(pre)
C04_drawnOnce(pre, op, res, post) ==
  (op = "init" /\ pre.inited) => (res # "ok" /\ Buttons(post) = Buttons(pre))
(* ---- C04, short deck -------------------------------------------------- *)
C04_shortDeck(pre, op, res, post) ==
  IsRotateOK(op, res) /\ pre.rule = "short_deck" =>
     /\ post.dealer = TrueNext(pre, pre.dealer, Act)
     /\ Act(post, post.dealer)

(* signatures of the two recorded findings (rule decisions of the pinned
   code; see known_findings.json).  A failing clause that matches its
   signature is reported as KNOWN-FINDING, anything else as a violation.  *)
(* KF-C04-waiting-newcomer: the rotation is refused although two seated-in
   players have chips, because after re-flagging against (old SB, new BB)
   every such player except at most one is a newcomer still waiting.      *)
KF_WaitingNewcomer(pre, op, res, post) ==
  /\ IsRotateRefused(pre, op, res) /\ pre.rule = "default"
  /\ AliveCount(pre) >= 2
  /\ LET nbb == NextScan(pre, pre.bb, Alive)
         s1 == Reflag(pre, pre.sb, nbb)
     IN /\ ActiveCount(s1) < 2
        /\ \E s \in SeatsOf(pre) : Alive(s1, s) /\ s1.seat[s].btw
(* KF-C04-dealer-on-bb: ring of >= 3 but the old SB seat (new dealer seat)
   is the seat the big blind wraps onto.                                  *)
KF_DealerOnBB(pre, op, res, post) ==
  /\ RD(pre, op, res) /\ ActiveCount(post) >= 3
  /\ ~IsHU(pre) /\ post.dealer = pre.sb /\ post.sb = pre.bb
  /\ post.bb = pre.sb

(* ---- C03, seat-manager part ------------------------------------------- *)
UniqueIds(st) == \A s, t \in SeatsOf(st) : Occ(st, s) /\ Occ(st, t) /\ st.seat[s].id = st.seat[t].id => s = t
C03_smUnique(pre, op, res, post) == UniqueIds(pre) => UniqueIds(post)
C03_smErrorUnchanged(pre, op, res, post) ==
  res # "ok" /\ op # "rotate" => post = pre
(* a refused rotation may rewrite waiting flags (the code does so before it
   counts); the property only demands that membership is untouched        *)
C03_smRotateKeepsMembers(pre, op, res, post) ==
  op \in {"rotate", "init"} => \A s \in SeatsOf(pre) :
     post.seat[s].id = pre.seat[s].id /\ post.seat[s].in = pre.seat[s].in /\ post.seat[s].chips = pre.seat[s].chips

(* ---- C05, flag part ---------------------------------------------------- *)
(* a player given seat s after positions were set waits iff s lies strictly
   between the button and the big blind (default rule)                     *)
StrictlyBetween(n, d, b, t) ==
  \E i \in 1..(n - 1) : (d + i) % n = t /\ \A j \in 1..i : (d + j) % n # b
C05_newcomerFlag(pre, op, res, post, newSeats) ==
  op \in {"assign", "random"} /\ res = "ok" =>
    \A s \in newSeats :
       post.seat[s].btw = (pre.inited /\ pre.rule = "default"
                           /\ pre.dealer # pre.bb /\ StrictlyBetween(pre.n, pre.dealer, pre.bb, s))
(* "on the same terms as a newcomer": across a rotation into a ring of three or more, every seated player who was not
   dealt into the previous hand (busted and re-bought, sat in late, newcomer) waits exactly when his seat lies strictly
   between the new button and the new big blind                                                                      *)
C05_rejoinTerms(pre, op, res, post) ==
  (IsRotateOK(op, res) /\ pre.rule = "default" /\ ~IsHU(pre) /\ ActiveCount(post) >= 3 /\ post.dealer # post.bb) =>
    \A s \in SeatsOf(pre) : (Occ(pre, s) /\ ~Act(pre, s)) =>
        post.seat[s].btw = StrictlyBetween(post.n, post.dealer, post.bb, s)
(* a waiting newcomer "waits until the rotation has moved past them": nothing but a rotation (or leaving) ends the wait --
   not sitting in, not buying chips                                                                                    *)
C05_waitsUntilRotation(pre, op, res, post) ==
  op \in {"join", "chips", "assign", "random"} =>
    \A s \in SeatsOf(pre) : (Occ(pre, s) /\ pre.seat[s].btw /\ post.seat[s].id = pre.seat[s].id) => post.seat[s].btw
(* continuity: whoever was dealt in and is still seated-in with chips stays
   dealt in across a successful rotation                                   *)
C05_continuity(pre, op, res, post) ==
  IsRotateOK(op, res) => \A s \in SeatsOf(pre) : Act(pre, s) => Act(post, s)
=============================================================================
