SPECIFICATION Spec
CONSTANTS
 None = ""
 N = 3
 Players = {"a", "b", "c"}
 K = 2
 Universe = "table"
 MaxPre = 3
 LockReserve = TRUE
 LockLeave = TRUE
 LockUpdate = TRUE
 LockSM = TRUE
INVARIANTS I_Serializable I_OneInside
VIEW V
CHECK_DEADLOCK FALSE
