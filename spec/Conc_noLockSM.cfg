SPECIFICATION Spec
CONSTANTS
 None = ""
 N = 3
 Players = {"a", "b", "c"}
 K = 2
 Universe = "sm"
 MaxPre = 2
 LockReserve = TRUE
 LockLeave = TRUE
 LockUpdate = TRUE
 LockSM = FALSE
INVARIANTS Emit
VIEW V
CHECK_DEADLOCK FALSE
