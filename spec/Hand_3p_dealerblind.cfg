SPECIFICATION Spec
CONSTANTS
 StacksC <- S3
 LabelsC <- Std3
 AnteC = 1
 DealerBC = 2
 SBC = 1
 BBC = 2
INVARIANTS I_Conserved I_NonNegative I_OnlyMover I_Settlement I_BotLegal I_AutoConservative I_NoStall
PROPERTY L_Finishes
VIEW V
CHECK_DEADLOCK FALSE
