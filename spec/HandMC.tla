------------------------------- MODULE HandMC -------------------------------
(* Exhaustive model of one hand: every betting line for small stacks, every
   blind structure given by the configuration, standard and dead-button
   label layouts.  Checks the hand-level property layer and emits, on
   request, every transition for the whole-transition-system comparison.     *)
EXTENDS HandProps, Json
CONSTANTS StacksC, LabelsC, AnteC, DealerBC, SBC, BBC
VARIABLES S, last
vars == <<S, last>>

Init == /\ S \in {NewHand(b, LabelsC, AnteC, DealerBC, SBC, BBC) : b \in StacksC}
        /\ last = <<"create", 0>>
Next == \/ AutoKind(S) # "none" /\ S' = Apply(S, AutoKind(S), 0) /\ last' = <<AutoKind(S), 0>>
        \/ \E m \in Moves(S) : S' = Apply(S, m[1], m[2]) /\ last' = m
Spec == Init /\ [][Next]_vars /\ WF_vars(Next)
V == S

Scores == [Idx(S) -> 1..2]
I_Conserved == Conserved(S)
I_NonNegative == NonNegative(S)
I_OnlyMover == OnlyMoverAllowed(S) /\ MoverHasMove(S)
I_Settlement == S.ev = "GameClosed" => \A sc \in Scores : SettlementConserves(S, sc)
I_BotLegal == BotLegal(S)
I_AutoConservative == AutoConservative(S)
I_NoStall == S.ev = "GameClosed" \/ ENABLED Next
L_Finishes == <>(S.ev = "GameClosed")

\* label layouts
Std2 == StdLabels(2)
Std3 == StdLabels(3)
Std4 == StdLabels(4)
DeadSB3 == <<{"dealer"}, {"bb"}, {"ug"}>>           \* dead small blind
DeadBtn3 == <<{"sb", "dealer"}, {"bb"}, {"ug"}>>    \* dead button: entry 0 got the dealer label appended
\* stack sets
S2 == {<<a, b>> : a \in 1..5, b \in 1..5}
S3 == {<<a, b, c>> : a \in 1..3, b \in 1..4, c \in 1..3}
S3b == {<<a, b, c>> : a \in {2, 5}, b \in {3, 6}, c \in {1, 4}}
S4 == {<<a, b, c, d>> : a \in {1, 3}, b \in {2, 4}, c \in {1, 5}, d \in {2, 3}}
=============================================================================
