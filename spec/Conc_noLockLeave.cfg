SPECIFICATION Spec
CONSTANTS
 None = ""
 N = 3
 Players = {"a", "b", "c"}
 K = 2
 Universe = "table"
 MaxPre = 2
 LockReserve = TRUE
 LockLeave = FALSE
 LockUpdate = TRUE
 LockSM = TRUE
INVARIANTS Emit
VIEW V
CHECK_DEADLOCK FALSE
