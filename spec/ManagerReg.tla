----------------------------- MODULE ManagerReg -----------------------------
(***************************************************************************)
(* manager.go at the granularity at which other callers can get in between. *)
(* CreateTable builds the engine, runs engine.CreateTable (the caller's     *)
(* callbacks fire inside) and only then stores the entry; CloseTable /      *)
(* ReleaseTable look the engine up, run engine.CloseTable (callbacks fire   *)
(* inside) and only then delete the entry.  So every registry-changing      *)
(* call is Begin ... End, and while it is open other manager calls -- made  *)
(* from inside those callbacks, or by other goroutines -- begin and end.    *)
(* The registry functions below are shared by the exhaustive model (Next)   *)
(* and by ManagerTrace, which replays calls recorded from the real manager. *)
(* SnapshotDelete = TRUE is a named deviation (a copy-on-write registry     *)
(* whose Close publishes "the snapshot taken at the look-up minus the id"): *)
(* TLC shows what it breaks (MGR_snapshot.cfg).                             *)
(***************************************************************************)
EXTENDS RegistryOps
CONSTANTS Ids, MaxCalls, SnapshotDelete
VARIABLES reg,      \* id -> engine number (the registry)
          open,     \* set of calls in progress: [c, op, id, found, eng, snap]
          ncall, neng,
          live,     \* ghost: ids whose create has ended with no close / release begun since
          gone,     \* ghost: ids never created, or whose close / release has ended with no create ended since
          last      \* the call that ended last: [op, id, found, res]
vars == <<reg, open, ncall, neng, live, gone, last>>

ResOf(found) == IF found THEN "ok" ELSE "ErrManagerTableNotFound"

Init == /\ reg = Empty /\ open = {} /\ ncall = 0 /\ neng = 0 /\ live = {} /\ gone = Ids
        /\ last = [op |-> "none", id |-> "none", found |-> TRUE, res |-> "ok", wasLive |-> FALSE, wasGone |-> FALSE]
Busy(id) == \E o \in open : o.id = id /\ o.op \in {"create", "close", "release"}
Begin(op, id) ==
  /\ ncall < MaxCalls
  /\ (op \in {"create", "close", "release"}) => ~Busy(id)       \* the drivers do not overlap two registry changes of one id
  /\ ncall' = ncall + 1
  /\ neng' = IF op = "create" THEN neng + 1 ELSE neng
  /\ open' = open \cup {[c |-> ncall + 1, op |-> op, id |-> id, found |-> Found(reg, id),
                        eng |-> IF op = "create" THEN neng + 1 ELSE IF Found(reg, id) THEN reg[id] ELSE 0, snap |-> reg,
                        wasLive |-> id \in live, wasGone |-> id \in gone]}
  /\ live' = IF op \in {"close", "release"} /\ Found(reg, id) THEN live \ {id} ELSE live
  /\ UNCHANGED <<reg, gone, last>>
End(o) ==
  /\ open' = open \ {o}
  /\ last' = [op |-> o.op, id |-> o.id, found |-> o.found, res |-> IF o.op = "create" THEN "ok" ELSE ResOf(o.found), wasLive |-> o.wasLive, wasGone |-> o.wasGone]
  /\ CASE o.op = "create" -> reg' = Put(reg, o.id, o.eng) /\ live' = live \cup {o.id} /\ gone' = gone \ {o.id}
       [] o.op \in {"close", "release"} /\ o.found -> reg' = AfterRemove(reg, o.snap, o.id, SnapshotDelete) /\ gone' = gone \cup {o.id} /\ live' = live
       [] OTHER -> UNCHANGED <<reg, live, gone>>
  /\ UNCHANGED <<ncall, neng>>
Next == \/ \E id \in Ids, op \in {"create", "close", "release", "forward"} : Begin(op, id)
        \/ \E o \in open : End(o)
Spec == Init /\ [][Next]_vars

(* C17: a table that is alive is found; a table never created, closed or released is not *)
I_LiveFound == \A id \in live : Found(reg, id)
I_GoneNotFound == \A id \in gone : ~Busy(id) => ~Found(reg, id)
A_ResultByRegistry == [][(last' # last) => ((last'.wasLive => last'.found) /\ (last'.wasGone => ~last'.found))]_vars
(* no effect on any other table: only the call's own id changes *)
A_Isolation == [][\A o \in open : (open' = open \ {o}) => \A i \in Ids \ {o.id} : (Found(reg, i) <=> Found(reg', i)) /\ (Found(reg, i) => reg'[i] = reg[i])]_vars
=============================================================================
