--------------------------- MODULE SeatManagerMC ---------------------------
(* Exhaustive model of the seat manager for small seat counts: every public
   operation, valid or invalid, single or batched, from every reachable
   state.  The property layer is checked as action properties.             *)
EXTENDS SeatManagerProps
CONSTANTS N, Players, RuleC, MaxBatch, WithFindings
VARIABLES sm, act, missed
vars == <<sm, act, missed>>

Maps(ids) == [ids -> 0..N]      \* seat N is out of range on purpose
Batches == {S \in SUBSET Players : S # {} /\ Cardinality(S) <= MaxBatch}

Step(op, args, out) == /\ sm' = out.st /\ act' = [op |-> op, args |-> args, res |-> out.res]

(* C05(d): consecutive hands missed while continuously seated-in with chips *)
Cap(n) == IF n > 5 THEN 5 ELSE n
Elig(st, p) == Seated(st, p) /\ Alive(st, SeatOf(st, p))
MissedUpd ==
  missed' = [p \in Players |->
     IF ~Elig(sm', p) \/ ~Elig(sm, p) \/ SeatOf(sm, p) # SeatOf(sm', p) THEN 0
     ELSE IF act'.op \in {"rotate", "init"} /\ act'.res = "ok"
          THEN (IF Act(sm', SeatOf(sm', p)) THEN 0 ELSE Cap(missed[p] + 1))
          ELSE missed[p]]

Init == sm = New(N, RuleC) /\ act = [op |-> "new", args |-> <<>>, res |-> "ok"]
        /\ missed = [p \in Players |-> 0]
Next ==
  /\ \/ \E ids \in Batches : \E m \in Maps(ids) : \E o \in AssignOutcomes(sm, m) : Step("assign", m, o)
     \/ \E ids \in Batches : \E o \in RandomAssignOutcomes(sm, ids) : Step("random", ids, o)
     \/ \E p \in Players : \E o \in RandomAssignOutcomesN(sm, 2, {p}) : Step("random", <<p, p>>, o)
     \/ \E ids \in Batches : Step("remove", ids, RemoveF(sm, ids))
     \/ \E ids \in Batches : Step("join", ids, JoinF(sm, ids))
     \/ \E p \in Players, b \in BOOLEAN : Step("chips", <<p, b>>, SetChipsF(sm, p, b))
     \/ \E r \in BOOLEAN : \E o \in InitOutcomes(sm, r) : Step("init", r, o)
     \/ Step("rotate", <<>>, RotateF(sm))
  /\ MissedUpd
Spec == Init /\ [][Next]_vars

V == <<sm, missed>>
Sym == Permutations(Players)

NewSeats == IF act'.op \in {"assign", "random"} /\ act'.res = "ok"
            THEN {s \in SeatsOf(sm) : ~Occ(sm, s) /\ Occ(sm', s)} ELSE {}
P(C(_, _, _, _)) == C(sm, act'.op, act'.res, sm')
KF(C(_, _, _, _), K(_, _, _, _)) == C(sm, act'.op, act'.res, sm') \/ (WithFindings /\ K(sm, act'.op, act'.res, sm'))

TypeOK == /\ sm.dealer \in -1..(N-1) /\ sm.sb \in -1..(N-1) /\ sm.bb \in -1..(N-1)
          /\ \A s \in SeatsOf(sm) : sm.seat[s].id \in Players \cup {None}
Unique == UniqueIds(sm)
Wait3 == \A p \in Players : missed[p] <= 3

A_bbNext          == [][P(C04_bbNext)]_vars
A_bbDealtIn       == [][P(C04_bbDealtIn)]_vars
A_atLeastTwo      == [][P(C04_atLeastTwo)]_vars
A_ringSB          == [][P(C04_ringSB)]_vars
A_ringDealer      == [][P(C04_ringDealer)]_vars
A_ringDistinct    == [][KF(C04_ringDistinct, KF_DealerOnBB)]_vars
A_headsUp         == [][P(C04_headsUp)]_vars
A_refusedNothing  == [][P(C04_refusedMovesNothing)]_vars
A_refusedOnlyFew  == [][KF(C04_refusedOnlyIfFew, KF_WaitingNewcomer)]_vars
A_shortDeck       == [][P(C04_shortDeck)]_vars
A_buttonsStay     == [][P(C04_onlyRotationMovesButtons)]_vars
A_drawnOnce       == [][P(C04_drawnOnce)]_vars
A_smUnique        == [][P(C03_smUnique)]_vars
A_smErrUnchanged  == [][P(C03_smErrorUnchanged)]_vars
A_smMembers       == [][P(C03_smRotateKeepsMembers)]_vars
A_newcomerFlag    == [][C05_newcomerFlag(sm, act'.op, act'.res, sm', NewSeats)]_vars
A_continuity      == [][P(C05_continuity)]_vars
A_rejoinTerms     == [][P(C05_rejoinTerms)]_vars
A_waitsUntilRot   == [][P(C05_waitsUntilRotation)]_vars
=============================================================================
