--------------------------- MODULE TableMembersMC ---------------------------
(* Exhaustive small-scope model of the membership operations: every call,
   valid or invalid, from every reachable membership state.  C03 (exclusive,
   consistent, all-or-nothing) and the C01 ledger are checked as invariants /
   action properties.                                                        *)
EXTENDS TableMembers
CONSTANTS N, Players, MaxBank, WithFindings
VARIABLES ms, act, net      \* net = chips brought in minus chips taken out (the C01 ledger)
vars == <<ms, act, net>>
Seats1 == -1..N          \* -1 random, N out of range
Joins1 == {<<[id |-> p, seat |-> s, chips |-> c]>> : p \in Players, s \in Seats1, c \in {0, 1}}
Joins2 == {<<[id |-> p, seat |-> s, chips |-> 1], [id |-> q, seat |-> t, chips |-> 0]>> :
             p \in Players, q \in Players, s \in {-1, 0, 1}, t \in {-1, 1}}
Bank(st, ids) == LET RECURSIVE Sum(_) Sum(k) == IF k = 0 THEN 0 ELSE (IF st.players[k].id \in ids THEN st.players[k].bank ELSE 0) + Sum(k - 1) IN Sum(Len(st.players))
JoinSum(j) == LET RECURSIVE Sum(_) Sum(k) == IF k = 0 THEN 0 ELSE j[k].chips + Sum(k - 1) IN Sum(Len(j))

Step(op, out, b, t) == /\ ms' = out.st /\ act' = [op |-> op, res |-> out.res]
                       /\ net' = net + (IF out.res = "ok" THEN b - t ELSE 0)
Init == ms = MNew(N, "default") /\ act = [op |-> "new", res |-> "ok"] /\ net = 0
Next ==
  \/ \E p \in Players, s \in Seats1, c \in {0, 1} : MTotal(ms) + c <= MaxBank /\ \E o \in ReserveOutcomes(ms, p, s, c) : Step("reserve", o, c, 0)
  \/ \E p \in Players : Step("join", JoinOutcome(ms, p), 0, 0)
  \/ \E p \in Players : MTotal(ms) + 1 <= MaxBank /\ Step("redeem", RedeemOutcome(ms, p, 1), 1, 0)
  \/ \E p \in Players : Step("leave", LeaveF(ms, <<p>>), 0, Bank(ms, {p}))
  \/ \E p, q \in Players : p # q /\ Step("leave", LeaveF(ms, <<p, q>>), 0, Bank(ms, {p, q}))
  \/ \E j \in Joins2 : MTotal(ms) + 1 <= MaxBank /\ \E o \in UpdateOutcomes(ms, j, <<>>) : Step("update", o, JoinSum(j), 0)
  \/ \E j \in Joins1, p \in Players : MTotal(ms) + 1 <= MaxBank /\
        \E o \in UpdateOutcomes(ms, j, <<p>>) :
           \* a refused join part after the leave has been applied is the recorded finding KF-C03-update-partial: excluded here
           /\ (o.res = "ok" \/ o.st = ms)
           /\ Step("update", o, JoinSum(j), Bank(ms, {p}))
Spec == Init /\ [][Next]_vars
I_Consistent == MConsistent(ms)
I_Ledger == MTotal(ms) = net
A_ErrorUnchanged == [][(act'.res \notin {"ok", "partial"}) => ms' = ms]_vars
V == <<ms, net>>
=============================================================================
