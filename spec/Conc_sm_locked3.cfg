SPECIFICATION Spec
CONSTANTS
 None = ""
 N = 3
 Players = {"a", "b", "c"}
 K = 3
 Universe = "sm"
 MaxPre = 1
 LockReserve = TRUE
 LockLeave = TRUE
 LockUpdate = TRUE
 LockSM = TRUE
INVARIANTS I_Serializable I_OneInsideSM
VIEW V
CHECK_DEADLOCK FALSE
