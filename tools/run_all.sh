#!/bin/sh
# run_all.sh [quick|thorough]  -- every registered check once, with wall time and exit code
cd "$(dirname "$0")/.."
tier=${1:-quick}
mkdir -p out
for id in C01 C02 C03 C04 C05 C06 C07 C08 C09 C10 C11 C12 C13 C14 C15 C16 C17 C18 C19 C20; do
  t0=$(date +%s)
  ./check $id --tier $tier > out/run_$id.log 2>&1
  rc=$?
  echo "$id exit=$rc $(( $(date +%s) - t0 ))s $(grep -c '^VIOLATION' out/run_$id.log) violations $(grep -c '^KNOWN-FINDING' out/run_$id.log) known"
done
