#!/usr/bin/env python3
"""merge_seeded_logs.py <log> ...  -- (re)build entries of seeded/RESULTS.json from the 'NAME CAUGHT|MISSED [...]' lines that
tools/seeded_run.py prints (several seeded_run processes running side by side overwrite each other's RESULTS.json)."""
import ast, json, os, re, sys
V = "/verif"
resf = os.path.join(V, "seeded", "RESULTS.json")
res = json.load(open(resf)) if os.path.exists(resf) else {}
for lf in sys.argv[1:]:
    for l in open(lf, errors="replace"):
        m = re.match(r"^(C\d\d-\S+) (CAUGHT|MISSED) (\[.*\])\s*$", l)
        if not m:
            continue
        name, verdict, runs = m.group(1), m.group(2), ast.literal_eval(m.group(3))
        mp = os.path.join(V, "seeded", name, "meta.json")
        if not os.path.exists(mp):
            continue
        meta = json.load(open(mp))
        res[name] = {"property": meta["property"], "caught": verdict == "CAUGHT",
                     "runs": [{"check": c, "exit": e, "clauses": cl} for c, e, cl in runs],
                     "summary": meta.get("summary", "")[:300]}
json.dump(res, open(resf, "w"), indent=1)
print(len(res), "entries;", sum(1 for v in res.values() if v.get("caught")), "caught;", sorted(k for k, v in res.items() if not v.get("caught")))
