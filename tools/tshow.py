#!/usr/bin/env python3
"""tshow.py trace.ndjson lineno [ctx] : compact view around a global line number"""
import json, sys, subprocess
f=sys.argv[1]; k=int(sys.argv[2]); ctx=int(sys.argv[3]) if len(sys.argv)>3 else 6
lines=open(f).read().splitlines()
d=json.loads(lines[k-1]); tr=d['tr']; n=d['n']
out=subprocess.run(['python3','/verif/tools/tview.py',f,str(tr)],capture_output=True,text=True).stdout.splitlines()
for l in out:
    num=int(l.split()[0])
    if n-ctx<=num<=n+1: print(('>>' if num==n else '  ')+l[:250])
