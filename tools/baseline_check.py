#!/usr/bin/env python3
"""Run the repository's pinned test suite with the verif tag OFF and compare with BASELINE.json stable_pass."""
import json, subprocess, sys, os
env = dict(os.environ, GOFLAGS="-mod=mod", GOPROXY="off", GOSUMDB="off", GOTOOLCHAIN="local")
base = json.load(open("/root/.vp/BASELINE.json"))
want = set(base["stable_pass"])
p = subprocess.run("go test -mod=mod -json -vet=off -count=1 -timeout 25m ./...", shell=True, cwd="/repo", env=env, capture_output=True, text=True)
got = set()
for l in p.stdout.splitlines():
    try: d = json.loads(l)
    except Exception: continue
    if d.get("Action") == "pass" and d.get("Test"):
        got.add(d["Package"] + "::" + d["Test"])
missing = sorted(want - got)
print("stable_pass expected", len(want), "passed", len(want & got), "missing", missing)
sys.exit(1 if missing else 0)
