#!/usr/bin/env python3
"""confirm_seeded.py <worktree> <srcdir> <name>
Confirm a candidate breaking change in a scratch worktree of /repo and, if confirmed, keep it as /verif/seeded/<name>/.
Confirmed = patch applies; builds; pinned stable tests still pass with it; demo fails with it and passes without it."""
import json, os, shutil, subprocess, sys
wt, src, name = sys.argv[1:4]
env = dict(os.environ, GOFLAGS="-mod=mod", GOPROXY="off", GOSUMDB="off", GOTOOLCHAIN="local")
def sh(cmd, cwd=wt, timeout=1800):
    p = subprocess.run(cmd, shell=True, cwd=cwd, env=env, capture_output=True, text=True, timeout=timeout)
    return p.returncode, p.stdout + p.stderr
def clean():
    sh("git checkout -- . && git clean -fdq")
ran = []
clean()
head = sh("git -C /repo rev-parse HEAD", cwd="/")[1].strip()
sh("git checkout -q --detach " + head)
import re as _re
_all = _re.findall(r"([\w./-]+_test\.go)", open(os.path.join(src, "demo_path.txt")).read())
_all = [x for x in _all if x not in ("demo_test.go", "A/demo_test.go", "B/demo_test.go") and "mutout" not in x and not x.startswith("/")] or _all
demo_path = sorted(_all, key=len)[-1].strip().lstrip("./")
def place_demo():
    dst = os.path.join(wt, demo_path)
    os.makedirs(os.path.dirname(dst), exist_ok=True)
    shutil.copy(os.path.join(src, "demo_test.go"), dst)
    return dst
def run_demo():
    pkg = "./" + os.path.dirname(demo_path) if os.path.dirname(demo_path) else "."
    rc, out = sh("go test -mod=mod -vet=off -count=1 -timeout 10m %s -run 'Test' 2>&1 | tail -40" % pkg) if os.path.dirname(demo_path) not in ("", "seat_manager", "actor", "open_game_manager", "testcases") else (None, None)
    if rc is None:
        # demo lives in an existing package: run only the tests defined in the demo file
        import re
        names = re.findall(r"^func (Test\w+)\(", open(os.path.join(src, "demo_test.go")).read(), re.M)
        rc, out = sh("go test -mod=mod -vet=off -count=1 -timeout 10m %s -run '^(%s)$' 2>&1 | grep -E '^(--- |ok|FAIL|PASS|panic)' | tail -20" % (pkg, "|".join(names)))
    return ("FAIL" not in out and "panic" not in out and ("ok" in out or "PASS" in out)), out[-1500:]
# 1. without the patch the demo passes
place_demo()
ok_clean, out = run_demo()
ran.append({"step": "demo on unpatched tree", "passes": ok_clean, "tail": out[-400:]})
clean()
# 2. with the patch: applies, builds, demo fails
rc, out = sh("git apply %s" % os.path.join(src, "patch.diff"))
ran.append({"step": "git apply", "rc": rc, "out": out[-300:]})
rcb, out = sh("go build ./... && go build -tags verif ./...")
ran.append({"step": "build (tag off and on)", "rc": rcb, "out": out[-300:]})
place_demo()
ok_patched, out = run_demo()
ran.append({"step": "demo on patched tree", "passes": ok_patched, "tail": out[-600:]})
os.remove(os.path.join(wt, demo_path))
# 3. pinned stable tests with the patch
base = json.load(open("/root/.vp/BASELINE.json"))
want = set(base["stable_pass"])
rc_t, out = sh("go test -mod=mod -json -vet=off -count=1 -timeout 25m ./...")
got = set()
for l in out.splitlines():
    try: d = json.loads(l)
    except Exception: continue
    if d.get("Action") == "pass" and d.get("Test"): got.add(d["Package"] + "::" + d["Test"])
missing = sorted(want - got)
if missing:   # timing-sensitive suite: one retry of the missing packages alone
    pk = sorted(set(m.split("::")[0].replace("github.com/weedbox/pokertable", ".") for m in missing))
    rc_t, out = sh("go test -mod=mod -json -vet=off -count=1 -timeout 25m " + " ".join(pk))
    for l in out.splitlines():
        try: d = json.loads(l)
        except Exception: continue
        if d.get("Action") == "pass" and d.get("Test"): got.add(d["Package"] + "::" + d["Test"])
    missing = sorted(want - got)
ran.append({"step": "pinned stable tests with the patch", "missing": missing})
clean()
confirmed = ok_clean and rc == 0 and rcb == 0 and (not ok_patched) and not missing
meta = json.load(open(os.path.join(src, "meta.json")))
meta["confirmed"] = confirmed
meta["confirmation"] = ran
meta["repo_head"] = head
print(name, "CONFIRMED" if confirmed else "NOT CONFIRMED", json.dumps(ran)[:600])
if confirmed:
    dst = os.path.join("/verif/seeded", name)
    os.makedirs(dst, exist_ok=True)
    for f in ("patch.diff", "demo_test.go", "demo_path.txt"):
        shutil.copy(os.path.join(src, f), dst)
    json.dump(meta, open(os.path.join(dst, "meta.json"), "w"), indent=1)
