#!/usr/bin/env python3
"""Regenerate /verif/MANIFEST.json from the table below (claimed checks + not_applicable)."""
import json, os, subprocess
V = os.path.dirname(os.path.dirname(os.path.abspath(__file__)))
props = [json.loads(l)["id"] for l in open(os.path.join(V, "properties.jsonl"))]

CLAIMED = {
 "C04": dict(
   technique="TLA+ model checking (TLC, exhaustive small scope) of an implementation-shaped seat-manager spec + trace validation: every transition of the real seat manager (BFS of its reachable states, random walks to 10 seats) evaluated against the TLA+ property layer and the tight model",
   text="Exhaustive TLC runs of SeatManagerMC (3-5 seats, all operations valid and invalid from every reachable state) establish that the property layer is consistent with the transcribed rotation algorithm; the real seat_manager is then explored state by state (restore/apply/dump through the verif accessor) and every recorded transition is judged by TLC with the same predicates, so a change to any scan, to the heads-up transitions or to the waiting-flag recomputation shows up as a failing clause with the exact pre-state and call as replay.",
   note="Small-scope exhaustive (<= 5 seats, <= 4 ids modulo renaming), 6..10 seats sampled. Trusts TLC, the JSON projection of seatManager state and VerifRestore/VerifDump. Two rule-level findings are listed in known_findings.json and matched by exact TLA+ signatures.",
   ref="3.1, 5/C04"),
}
NOT_YET = "check under construction in this session; not yet claimed"

def main():
    head = subprocess.run(["git", "-C", "/repo", "log", "--format=%h %s"], capture_output=True, text=True).stdout.splitlines()
    hooks = [l.split()[0] for l in head if "verif hooks" in l]
    m = {"version": 1,
         "setup_cmd": "cd /verif/harness && cp /repo/go.sum . && GOFLAGS=-mod=mod GOPROXY=off GOSUMDB=off GOTOOLCHAIN=local go build -tags verif -o bin/vh ./cmd/vh && cd /verif && python3 tools/sany_all.py",
         "hooks": {"guard": "verif", "enable": "go build -tags verif (harness module /verif/harness, replace => /repo)",
                   "baseline_off_cmd": "cd /repo && go test -mod=mod -json -vet=off -count=1 -timeout 25m ./...",
                   "source_commits": hooks, "add_only": True},
         "engines": [{"name": "tlc", "path": "/opt/veriftools/tla/tla2tools.jar", "serves_properties": sorted(CLAIMED), "kind_free_text": "TLA+ model checker: exhaustive/simulation runs of the specs under /verif/spec and trace validation of ndjson traces recorded from the real code"},
                     {"name": "vh", "path": "/verif/harness", "serves_properties": sorted(CLAIMED), "kind_free_text": "Go harness (tag verif) that drives the real seat manager / open-game manager / table engine / actors and records traces"}],
         "checks": [], "not_applicable": [],
         "notes": "Orchestrator: ./check <ID> --tier quick|thorough. Exit 0 held / 1 violation / 2 inconclusive. Known findings: known_findings.json. Design: DESIGN.md."}
    for p in props:
        if p in CLAIMED:
            c = CLAIMED[p]
            m["checks"].append({"property_id": p, "quick_cmd": "./check %s --tier quick" % p, "thorough_cmd": "./check %s --tier thorough" % p,
                                "evidence_file": "/verif/evidence/%s.json" % p, "replay_cmd_template": "./check %s --replay {path}" % p,
                                "engine": "tlc", "level_claimed": {"category": c.get("category", "model_checking"), "text": c["text"], "design_ref": c["ref"]},
                                "level_note": c["note"], "technique": c["technique"]})
        else:
            m["not_applicable"].append({"property_id": p, "reason": NOT_YET})
    json.dump(m, open(os.path.join(V, "MANIFEST.json"), "w"), indent=1)
    print("claimed", sorted(CLAIMED), "hooks", hooks)

if __name__ == "__main__":
    main()
