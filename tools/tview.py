#!/usr/bin/env python3
"""Compact view of a table trace: tview.py file [tr] [from-to]"""
import json, sys
f = sys.argv[1]; tr = int(sys.argv[2]) if len(sys.argv) > 2 else None
for l in open(f):
    d = json.loads(l)
    if tr is not None and d["tr"] != tr: continue
    st = d["st"]; a = d["a"]
    h = st["hand"][0] if st["hand"] else None
    hs = "%s/%s cur=%s" % (h["ev"], h["round"], h["cur"]) if h else "-"
    args = " ".join("%s=%s" % (k, v) for k, v in a.items() if v not in ("", [], 0, -2, None) and k != "note")
    note = a.get("note", "")[:60] if d["ev"] != "scenario" else ""
    banks = ",".join("%s:%s%s%s" % (p["id"], p["bank"], "" if p["in"] else "o", "*" if p["part"] else "") for p in st["players"])
    print("%4d %-28s %-22s %-10s gc=%d %-28s [%s] %s %s" % (d["n"], d["ev"], d["res"][:22], st["status"].replace("table_", "")[:10], st["gc"], hs, banks, args, note))
