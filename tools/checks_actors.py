"""C18 (bots only make legal moves; bot tables play out) and C19 (auto-play never volunteers chips).
  1. TLC model-checks HandMC: over every reachable hand state of the small-scope configurations, every move in
     BotMoves (all random draws of actor/bot_runner.go) is legal and AutoMove is the conservative choice.
  2. vh actors shows reachable states of the REAL backend (all players' points of view, wrapper-added ready/pay
     included) to real botRunner / playerRunner instances wired to a recording Adapter; each call is replayed on the
     real backend.  vh table --bots plays whole tables with bots only.
  3. ActorTrace.tla judges every delivery."""
import os, json, subprocess, shutil
from concurrent.futures import ThreadPoolExecutor
import vlib
from vlib import Check, tlc_mc, tlc_trace, require_mc, scratch, build_harness, log, Inconclusive, VH, GOENV
from checks import register
import checks_table

SHOW = [("std2", "3,4;1,1;2,5;9,2", "0,0,1,2"), ("std2", "4,3;1,7", "1,0,1,2"), ("std3", "3,4,2;1,6,9;2,2,2", "0,0,1,2"),
        ("std3", "3,5,4;8,1,3", "1,1,0,2"), ("std3", "2,3,2;7,7,1", "0,0,0,2"), ("deadsb3", "3,4,2;2,9,5", "0,0,1,2"),
        ("deadbtn3", "3,4,2;5,2,3", "1,0,1,2"), ("std4", "2,3,4,3;9,1,1,4", "0,2,1,2"), ("std5", "2,3,2,3,2;6,1,4,2,5", "0,0,1,2"),
        # a seat holding two positions under a dealer blind: heads-up (dealer + sb) and the dead button (sb + dealer)
        ("std2", "5,6;3,9", "0,1,1,2"), ("deadbtn3", "6,7,5;3,3,8", "0,2,1,2")]
SHOW_T = [("std3", "5,9,7;6,3,8;12,1,30", "0,0,1,2"), ("std4", "3,4,5,2;2,2,6,3", "1,0,1,2"), ("deadbtn4", "3,2,4,3;4,4,2,5", "1,0,1,2"),
          ("std5", "9,3,2,7,2;3,1,4,2,5", "1,0,1,2")]


def actor_traces(tier, d):
    jobs = SHOW + (SHOW_T if tier == "thorough" else [])
    reps = 4 if tier == "quick" else 12
    maxs = 150 if tier == "quick" else 900

    def run(ij):
        i, (lay, st, bl) = ij
        out = os.path.join(d, "actors-%02d.ndjson" % i)
        p = subprocess.run([VH, "actors", "--layout", lay, "--stacks", st, "--blinds", bl, "--reps", str(reps), "--maxstates", str(maxs), "--out", out, "--tr", str(i + 1)],
                           capture_output=True, text=True, timeout=3000, env=GOENV)
        if p.returncode != 0:
            raise Inconclusive("vh actors failed: " + p.stderr[-500:])
        return out, json.loads([l for l in p.stdout.splitlines() if l.startswith("{")][-1])
    files, states, lines = [], 0, 0
    with ThreadPoolExecutor(max_workers=12) as ex:
        for out, s in ex.map(run, enumerate(jobs)):
            files.append(out)
            states += s["states"]
            lines += s["lines"]
    merged = os.path.join(d, "actors.ndjson")
    with open(merged, "wb") as g:
        for f in files:
            with open(f, "rb") as h:
                shutil.copyfileobj(h, g)
    return merged, states, lines


def actor_check(prop, tier, replay):
    ck = Check(prop, tier)
    build_harness()
    pool = ThreadPoolExecutor(max_workers=1)
    fut = pool.submit(checks_table.run_models, ck, "C10", tier)   # the HandMC configurations (I_BotLegal, I_AutoConservative)
    d = scratch("actors")
    merged, states, lines = actor_traces(tier, d)
    tr = tlc_trace("ActorTrace.tla", "ActorTrace.cfg", merged, timeout=3000, parts=14)
    ck.cov["trace_lines"] = tr["lines"]
    ck.cov["traces_validated_against_impl"] = tr["lines"]
    ck.cov["drift_lines"] = len(tr["drift"])
    ck.cov["pools"] = [{"pool": "state showcase", "states_shown": states, "deliveries": lines, "drift": len(tr["drift"])}]
    if tr["drift"]:
        log("DRIFT: %d bot moves are outside the BotMoves model, e.g. %s" % (len(tr["drift"]), tr["drift"][0]))
    ck.route([prop + "_"], tr, merged, "vh actors")
    kinds = {}
    with open(merged) as f:
        for i, l in enumerate(f):
            dd = json.loads(l)
            if (prop == "C18") == dd["ev"].startswith("bot") and dd["calls"]:
                key = dd["calls"][0][0]
                kinds[key] = kinds.get(key, 0) + 1
                if len(ck.cov["samples"]) < 3 and kinds[key] == 1:
                    ck.cov["samples"].append({"ev": dd["ev"], "status": dd["status"], "me": dd["me"], "calls": dd["calls"], "res": dd["res"],
                                              "hand": {k: dd["hand"][k] for k in ("ev", "round", "cur", "cw", "prs", "mb")},
                                              "me_state": dd["hand"]["p"][dd["me"]]})
    ck.cov["calls_by_kind"] = kinds
    if prop == "C18":
        # whole tables played by bots only
        path, summ, crashed = checks_table.run_pool("bots", tier, d, bots=True)
        tr2 = tlc_trace("TableTrace.tla", "TableTrace.cfg", path, timeout=3000, parts=14, by_trace=True)
        ck.cov["trace_lines"] += tr2["lines"]
        ck.cov["pools"].append({"pool": "all-bot tables", "scenarios": summ.get("scenarios", 0), "lines": tr2["lines"], "stuck": summ.get("stuck", 0)})
        # (a bot that panics takes the engine process with it: the crash line of that worker is a C18 matter here)
        ck.route(["C18_", "C10_acceptedLegal", "C11_progress", "C03_noPanic"], tr2, path, "vh table --bots")
        if crashed and not any(v[0] == "C03_noPanic" for v in tr2["viol"]):
            raise Inconclusive("a bot-table worker died without a recorded crash line: " + crashed[0][1][:400])
    fut.result()
    ck.assumptions = ["states shown are reached by the real backend from small stacks (1..30 chips) in nine label layouts / blind structures; larger stacks are sampled in the thorough tier",
                      "the recording adapter accepts every call; acceptance is judged by replaying the call on the real NativeGameBackend"]
    return ck.finish({"explanation": "traces_validated_against_impl = deliveries of a hand state to a real runner instance, each judged by TLC"})


register("C18")(actor_check)
register("C19")(actor_check)
