"""Table-engine family: C01 C02 C03 C05 C06 C07 C08 C10 C11 C12 C14 C15 share one set of recorded behaviours.

Pipeline (DESIGN.md 3.3/3.4, 4, 5):
  1. TLC model-checks the models that carry the property (Table*.cfg / Hand*.cfg / SeatManager).
  2. vh table runs scenario pools against the REAL engine (sequential driver, SpyBackend, verif hooks) and records
     every call, callback, hook point and backend call with the projected abstract state.
  3. TableTrace.tla (TLC) evaluates every clause of the property layer on every recorded line.
The recorded behaviours and their TLC verdicts are cached per (working-tree digest, tier, seed) so that the twelve
checks of this family, run one after the other, pay for the drivers once.
"""
import os, json, hashlib, subprocess, shutil, time
from concurrent.futures import ThreadPoolExecutor
import vlib
from vlib import Check, tlc_mc, tlc_trace, require_mc, scratch, build_harness, log, Inconclusive, VERIF, REPO, OUT, VH, GOENV
from checks import register

POOLS = {
 # name: (profile, allow, scenarios quick, scenarios thorough, first seed offset)
 "general": ("general", "", 240, 2400, 0),
 "members": ("members", "", 144, 1440, 20000),
 "life": ("life", "", 144, 1440, 40000),
 "hand": ("hand", "", 144, 1440, 60000),
 "fault": ("fault", "", 96, 960, 80000),
 "timeout": ("timeout", "", 14, 60, 90000),   # one process per scenario: each waits out the 17 s response time-out
 # quarantine pools: each contains the trigger of one recorded finding and exists to confirm exactly that finding
 "kf-midhand-leave": ("kf", "kf-midhand-leave", 24, 200, 100000),
 "kf-lost-blind-update": ("kf", "kf-lost-blind-update", 16, 100, 110000),
 "kf-open-window": ("kf", "kf-open-window", 16, 96, 140000),
 "kf-update-partial": ("members", "kf-update-partial", 48, 400, 120000),
 "kf-shortdeck": ("general", "shortdeck", 48, 400, 130000),
}


LIFE_CONFORMANCE_POOLS = ("general", "members", "life", "hand", "fault", "tlc-schedules", "kf-open-window", "kf-lost-blind-update")


def tree_digest():
    h = hashlib.sha1()
    for root in (REPO, os.path.join(VERIF, "harness", "cmd"), os.path.join(VERIF, "spec"), os.path.join(VERIF, "tools")):
        for dp, dn, fn in sorted(os.walk(root)):
            dn[:] = sorted(d for d in dn if d not in (".git", "bin", "__pycache__"))
            for f in sorted(fn):
                if f.endswith((".go", ".tla", ".cfg", ".py", ".mod", ".sum")):
                    p = os.path.join(dp, f)
                    h.update(p.encode())
                    h.update(open(p, "rb").read())
    return h.hexdigest()[:16]


MANAGER_POOLS = {
 "manager-general": ("general", "", 96, 1500, 200000),
 "manager-members": ("members", "", 72, 1000, 220000),
 "manager-life": ("life", "", 48, 800, 240000),
 "manager-hand": ("hand", "", 72, 1000, 260000),
}


ACTOR_POOLS = {
 "actors-life": ("life", "", 96, 1500, 300000),
 "actors-general": ("general", "", 96, 1500, 320000),
 "actors-hand": ("hand", "", 48, 800, 340000),
 "actors-fault": ("fault", "", 24, 400, 360000),
}


BOT_POOLS = {"bots": ("bots", "", 96, 1200, 400000)}


def run_pool(name, tier, d, via=None, actors=False, bots=False):
    profile, allow, nq, nt, off = (MANAGER_POOLS if via else ACTOR_POOLS if actors else BOT_POOLS if bots else POOLS)[name]
    n = nq if tier == "quick" else nt
    procs = 48 if n >= 96 else max(1, n // 2)
    if name in ("kf-midhand-leave", "timeout"):
        procs = n          # the finding kills the engine process / the scenario waits 17 s: one scenario per process
    per = (n + procs - 1) // procs
    base = vlib.seed() * 100000 + off
    jobs = []
    for i in range(procs):
        out = os.path.join(d, "%s-%02d.ndjson" % (name, i))
        cmd = [VH, "table", "--from", str(base + i * per + 1), "--count", str(per), "--profile", profile, "--out", out]
        if allow:
            cmd += ["--allow", allow]
        if via:
            cmd += ["--via", via]
        if actors:
            cmd += ["--actors"]
        if bots:
            cmd += ["--bots"]
        jobs.append((cmd, out))
    return run_jobs(name, jobs, d, procs)


TLC_SCHEDULES = (96, 960)   # behaviours of TableLifeSim turned into driver schedules (quick, thorough)


def run_tlc_pool(tier, d):
    """spec -> code: tlc -simulate picks the interleavings of external calls with the asynchronous life cycle"""
    import tlc_scen
    n = TLC_SCHEDULES[0] if tier == "quick" else TLC_SCHEDULES[1]
    path, k = tlc_scen.generate(n, vlib.seed(), d)
    scs = json.load(open(path))
    procs = min(48, max(1, k // 2))
    jobs = []
    for i in range(procs):
        part = scs[i::procs]
        if not part:
            continue
        sf = os.path.join(d, "tlc-sched-%02d.json" % i)
        json.dump(part, open(sf, "w"))
        out = os.path.join(d, "tlc-schedules-%02d.ndjson" % i)
        jobs.append(([VH, "table", "--scenario", sf, "--out", out], out))
    return run_jobs("tlc-schedules", jobs, d, procs)


def run_jobs(name, jobs, d, procs):

    def run(job):
        cmd, out = job
        p = subprocess.run(cmd, capture_output=True, text=True, timeout=3000, env=GOENV)
        return job, p
    files, crashed, summ = [], [], {"scenarios": 0, "stuck": 0, "lines": 0}
    with ThreadPoolExecutor(max_workers=min(procs, 48)) as ex:
        for (cmd, out), p in ex.map(run, jobs):
            if p.returncode != 0:
                # an engine goroutine died (panic outside the driver's reach): the trace ends abruptly; mark it
                crashed.append((cmd, p.stderr[-1500:]))
                try:
                    raw = open(out, "rb").read().split(b"\n")
                    ok = []
                    for l in raw:
                        try:
                            json.loads(l)
                            ok.append(l)
                        except Exception:
                            pass
                    open(out, "wb").write(b"\n".join(ok) + b"\n")
                except Exception:
                    pass
                with open(out, "a") as f:
                    last = None
                    try:
                        for l in open(out):
                            last = l
                        trid = json.loads(last)["tr"] if last else 0
                    except Exception:
                        trid = 0
                    f.write(json.dumps({"tr": trid, "n": 999999, "ev": "crash", "a": {"note": p.stderr[-300:], "kind": "", "id": "", "ids": [], "joins": [], "blind": [], "seat": -2, "chips": 0, "amt": 0, "gc": 0, "gid": 0, "round": ""},
                                        "res": "panic", "t": 0, "same": False, "pre": [], "st": {"status": "none"}, "by": ""}) + "\n")
            else:
                try:
                    s = json.loads([l for l in p.stdout.splitlines() if l.startswith("{")][-1])
                    for k in summ:
                        summ[k] += s.get(k, 0)
                except Exception:
                    pass
            files.append(out)
    for f in files:   # a killed worker may leave a torn last line
        if not os.path.exists(f):
            continue
        lines = open(f, "rb").read().split(b"\n")
        good = []
        for l in lines:
            if not l.strip():
                continue
            try:
                json.loads(l)
                good.append(l)
            except Exception:
                pass
        open(f, "wb").write(b"\n".join(good) + (b"\n" if good else b""))
    merged = os.path.join(d, name + ".ndjson")
    with open(merged, "wb") as g:
        for f in files:
            if os.path.exists(f):
                with open(f, "rb") as h:
                    shutil.copyfileobj(h, g)
                os.remove(f)
    return merged, summ, crashed


HAND_DFS = [  # (layout, stacks, blinds ante/dealer/sb/bb, decks)
    ("std2", "3,4;1,1;2,5;5,2", "0,0,1,2", "rand,0-1,1-0,tieall"),
    ("std2", "4,3;2,2", "1,0,1,2", "rand,1-0"),
    ("std3", "3,4,2;1,2,3;2,2,2", "0,0,1,2", "rand,0-1-2,2-0-0,tieall,3-1-3"),
    ("std3", "3,5,4", "1,1,0,2", "rand,2-1-0"),
    ("std3", "2,3,2", "0,0,0,2", "rand"),
    ("deadsb3", "3,4,2;2,2,5", "0,0,1,2", "rand,0-1-2"),
    ("deadbtn3", "3,4,2;5,2,3", "1,0,1,2", "rand,2-2-0"),
    ("std4", "2,3,4,3", "0,2,1,2", "rand,3-2-1-0"),
    ("twodealer", "3,2,4,3", "0,0,1,2", "rand"),
    ("std2", "4,5;3,3", "0,1,1,2", "rand,0-1"),          # heads-up under a dealer blind: the button holds dealer + sb
    ("deadbtn3", "5,4,6", "0,2,1,2", "rand"),            # dead button under a dealer blind
]
HAND_DFS_THOROUGH = [
    ("std3", "5,9,7;6,3,8", "0,0,1,2", "rand,0-1-2,2-0-0"),
    ("std3", "3,5,4", "0,0,0,2", "rand"),
    ("std4", "3,4,5,2;2,2,6,3", "1,0,1,2", "rand,0-1-2-3,3-3-1-0"),
    ("std5", "2,3,2,3,2;3,1,4,2,5", "0,0,1,2", "rand,4-3-2-2-0"),
    ("deadbtn4", "3,2,4,3;4,4,2,5", "1,0,1,2", "rand"),
]


def run_hand_dfs(tier, d):
    jobs = HAND_DFS + (HAND_DFS_THOROUGH if tier == "thorough" else [])
    files, summ = [], {"scenarios": 0, "lines": 0, "states": 0}

    def run(ij):
        i, (lay, st, bl, dk) = ij
        out = os.path.join(d, "handdfs-%02d.ndjson" % i)
        p = subprocess.run([VH, "hand-dfs", "--layout", lay, "--stacks", st, "--blinds", bl, "--decks", dk, "--out", out, "--tr", str(i * 100 + 1)],
                           capture_output=True, text=True, timeout=3000, env=GOENV)
        if p.returncode != 0:
            raise Inconclusive("vh hand-dfs failed: " + p.stderr[-500:])
        return out, json.loads([l for l in p.stdout.splitlines() if l.startswith("{")][-1])
    with ThreadPoolExecutor(max_workers=8) as ex:
        for out, s in ex.map(run, enumerate(jobs)):
            files.append(out)
            summ["lines"] += s["lines"]
            summ["states"] += s["states"]
            summ["scenarios"] += 1
    merged = os.path.join(d, "handdfs.ndjson")
    with open(merged, "wb") as g:
        for f in files:
            with open(f, "rb") as h:
                shutil.copyfileobj(h, g)
            os.remove(f)
    return merged, summ


def family(tier):
    """Run (or reuse) all pools + TLC verdicts. Returns (dir, {pool: {"file","tr","summary","crashed"}})."""
    build_harness()
    key = "%s-%s-%d" % (tree_digest(), tier, vlib.seed())
    cdir = os.path.join(OUT, "cache", key)
    meta = os.path.join(cdir, "family.json")
    if os.path.exists(meta) and time.time() - os.path.getmtime(meta) < 3 * 3600:
        return cdir, json.load(open(meta))
    # drop older caches
    shutil.rmtree(os.path.join(OUT, "cache"), ignore_errors=True)
    os.makedirs(cdir, exist_ok=True)
    res = {}
    for name in list(POOLS) + ["tlc-schedules"]:
        t0 = time.time()
        path, summ, crashed = run_tlc_pool(tier, cdir) if name == "tlc-schedules" else run_pool(name, tier, cdir)
        tr = tlc_trace("TableTrace.tla", "TableTrace.cfg", path, timeout=3000, parts=14, by_trace=True)
        res[name] = {"file": path, "summary": summ, "crashed": [c[1] for c in crashed], "lines": tr["lines"],
                     "viol": tr["viol"], "drive_tlc_wall_s": round(time.time() - t0, 1)}
        if name in LIFE_CONFORMANCE_POOLS:
            # code -> spec: the recorded life-cycle events replayed through TableLife's own actions (DRIFT = model and code disagree)
            try:
                lt = tlc_trace("TableLifeTrace.tla", "TableLifeTrace.cfg", path, timeout=3000, parts=8, by_trace=True)
                res[name]["life_drift"] = [[k, list(r)] for k, r in lt["drift"]][:50]
                res[name]["life_drift_n"] = len(lt["drift"])
                if lt["drift"]:
                    log("DRIFT TableLife vs pool %s: %d scenario(s), e.g. line %s" % (name, len(lt["drift"]), lt["drift"][0]))
            except Inconclusive as e:
                # the conformance run is advisory (DRIFT never decides anything): a trace the model cannot follow to the end
                # is reported as such and does not stop the verdict run
                log("DRIFT TableLife vs pool %s: the model could not follow the recorded behaviour to the end (%s)" % (name, str(e)[:300]))
                res[name]["life_drift"] = [["incomplete", str(e)[:300]]]
                res[name]["life_drift_n"] = 1
    t0 = time.time()
    path, summ = run_hand_dfs(tier, cdir)
    tr = tlc_trace("HandTrace.tla", "HandTrace.cfg", path, timeout=3000, parts=14)
    res["hand-dfs"] = {"file": path, "summary": summ, "crashed": [], "lines": tr["lines"], "viol": tr["viol"], "drift": len(tr["drift"]),
                       "drive_tlc_wall_s": round(time.time() - t0, 1)}
    if tr["drift"]:
        log("DRIFT hand-dfs: %d transitions of the real game backend differ from HandRules!Apply, e.g. line %s" % (len(tr["drift"]), tr["drift"][0]))
    json.dump(res, open(meta, "w"))
    return cdir, res


def route_family(ck, prefixes, fam):
    for name, r in fam.items():
        ck.cov["trace_lines"] += r["lines"]
        ck.cov["traces_validated_against_impl"] += r["summary"].get("scenarios", 0)
        ck.cov.setdefault("pools", []).append({"pool": name, "scenarios": r["summary"].get("scenarios", 0), "lines": r["lines"],
                                               "stuck": r["summary"].get("stuck", 0), "crashed_workers": len(r["crashed"]), "wall_s": r["drive_tlc_wall_s"]})
        ck.route(prefixes, {"viol": [tuple(v) for v in r["viol"]]}, r["file"], "vh table pool " + name)
        if "life_drift_n" in r:
            lc = ck.cov.setdefault("lifecycle_conformance", {"scenarios_replayed_through_TableLife": 0, "drift": 0})
            lc["scenarios_replayed_through_TableLife"] += r["summary"].get("scenarios", 0)
            lc["drift"] += r["life_drift_n"]
        if r["crashed"] and not any(v[0] == "C03_noPanic" for v in r["viol"]):
            raise Inconclusive("a driver worker died without a recorded crash line: " + r["crashed"][0][:500])


def sample_lines(path, want=2):
    out = []
    try:
        with open(path) as f:
            for i, l in enumerate(f):
                if i in (60, 200):
                    d = json.loads(l)
                    out.append({"ev": d["ev"], "a": d["a"], "res": d["res"], "status": d["st"].get("status"), "gc": d["st"].get("gc"),
                                "players": [[p["id"], p["seat"], p["bank"], p["in"], p["part"]] for p in d["st"].get("players", [])]})
                if i > 200:
                    break
    except Exception:
        pass
    return out


TABLE_PROPS = {
 "C01": (["C01_", "C11_closedHandSettles", "C03_noPanic"], []),   # a closed hand that is never settled has not moved its chips at all  # incl. C01_hand* clauses judged on the real backend's transition system
 "C02": (["C02_", "C01_settleCredit", "C03_noPanic"], []),   # "entry i's result is credited to that player and nobody else" is the settlement-credit clause
 "C03": (["C03_"], ["sm"]),
 "C05": (["C05_"], ["sm"]),
 "C06": (["C06_"], []),
 "C07": (["C07_"], []),
 "C08": (["C08_"], []),
 "C10": (["C10_"], []),
 "C11": (["C11_"], []),
 "C12": (["C12_", "C07_noOpenOnBreak"], []),   # "when the level is a break no hand is opened"
 "C13": (["C13_"], []),
 "C14": (["C14_"], []),
 "C15": (["C15_"], []),
}

# models that carry each property (spec, cfg, timeout)
_HAND_Q = [("HandMC.tla", c, 600) for c in ("Hand_2p.cfg", "Hand_2p_ante.cfg", "Hand_3p.cfg", "Hand_3p_deadsb.cfg", "Hand_3p_deadbtn.cfg")]
_HAND_T = _HAND_Q + [("HandMC.tla", c, 1800) for c in ("Hand_3p_dealerblind.cfg", "Hand_3p_nosb.cfg", "Hand_4p.cfg")]
_LIFE_Q = [("TableLife.tla", "TL_fixed_q.cfg", 900), ("TableLife.tla", "TL_leave.cfg", 900), ("TableLife.tla", "TL_live.cfg", 600)]
_LIFE_T = [("TableLife.tla", "TL_fixed.cfg", 3000), ("TableLife.tla", "TL_leave.cfg", 900), ("TableLife.tla", "TL_live.cfg", 600)]
_SM_Q = [("SeatManagerMC.tla", "SM_mc3.cfg", 600), ("SeatManagerMC.tla", "SM_mc4.cfg", 900)]
_SM_T = _SM_Q + [("SeatManagerMC.tla", "SM_mc4sd.cfg", 600), ("SeatManagerMC.tla", "SM_mc5.cfg", 7200)]
_WRAP = [("HandWrapper.tla", c, 600) for c in ("HW_2p.cfg", "HW_2p_fault.cfg", "HW_3p_silent.cfg", "HW_3p_deadbtn.cfg", "HW_3p_fault2.cfg")]
MODELS = {
 "C01": {"quick": _HAND_Q, "thorough": _HAND_T},
 "C10": {"quick": _HAND_Q + _WRAP[:1], "thorough": _HAND_T + _WRAP},
 "C11": {"quick": _HAND_Q + _WRAP[:4], "thorough": _HAND_T + _WRAP},
 "C13": {"quick": _HAND_Q + [_WRAP[1], _WRAP[4]], "thorough": _HAND_T + _WRAP},
 "C14": {"quick": _HAND_Q, "thorough": _HAND_T},
 "C15": {"quick": _HAND_Q, "thorough": _HAND_T},
 "C07": {"quick": _LIFE_Q, "thorough": _LIFE_T},
 "C08": {"quick": _LIFE_Q, "thorough": _LIFE_T},
 "C12": {"quick": _LIFE_Q, "thorough": _LIFE_T},
 "C03": {"quick": _SM_Q, "thorough": _SM_T},
 "C05": {"quick": _SM_Q, "thorough": _SM_T},
 "C20": {"quick": _LIFE_Q, "thorough": _LIFE_T},
 "C02": {"quick": [("TablePositionsMC.tla", "TP_mc4.cfg", 900)] + _SM_Q[:1], "thorough": [("TablePositionsMC.tla", "TP_mc4.cfg", 900), ("TablePositionsMC.tla", "TP_mc5.cfg", 3000)] + _SM_T[:2]},
 "C06": {"quick": [("TablePositionsMC.tla", "TP_mc4.cfg", 900)] + _SM_Q[:1], "thorough": [("TablePositionsMC.tla", "TP_mc4.cfg", 900), ("TablePositionsMC.tla", "TP_mc5.cfg", 3000)] + _SM_T[:2]},
}


def run_models(ck, prop, tier):
    for spec, cfg, to in MODELS.get(prop, {}).get(tier, MODELS.get(prop, {}).get("quick", [])):
        r = tlc_mc(spec, cfg, timeout=to, workers=4)
        require_mc(r, spec + "/" + cfg)
        ck.add_model(r, "exhaustive model check")


def replay_case(prop, path, prefixes):
    """Re-run the scenario stored in a replay file on the current tree and judge it again (engine randomness -- seats,
    button, cards -- is not replayed, so a behaviour that needs a particular draw may need several runs)."""
    case = json.load(open(path))["case"]
    ctx = case.get("context", {})
    sc = ctx.get("scenario")
    build_harness()
    d = scratch("replay")
    if sc is None:
        raise Inconclusive("the replay file carries no scenario (single-transition cases are self-contained: see its 'line')")
    scf = os.path.join(d, "scenario.json")
    json.dump([sc], open(scf, "w"))
    hits = 0
    for attempt in range(5):
        out = os.path.join(d, "replay-%d.ndjson" % attempt)
        cmd = [VH, "table", "--scenario", scf, "--out", out]
        if ctx.get("scenario_via"):
            cmd += ["--via", ctx["scenario_via"]]
        src = case.get("source", "")
        if "--actors" in src:
            cmd += ["--actors"]
        if "--bots" in src:
            cmd += ["--bots"]
        subprocess.run(cmd, capture_output=True, text=True, timeout=600, env=GOENV)
        tr = tlc_trace("TableTrace.tla", "TableTrace.cfg", out, timeout=600, parts=1, by_trace=True)
        mine = [v for v in tr["viol"] if any(v[0].startswith(p) for p in prefixes)]
        if mine:
            hits += 1
            print("VIOLATION property=%s replay=%s" % (prop, path))
            log("  reproduced on attempt %d: %s" % (attempt + 1, sorted(set(v[0] for v in mine))))
            return 1
    log("not reproduced in 5 runs of the scenario")
    return 0


def table_check(prop, tier, replay):
    if replay:
        return replay_case(prop, replay, TABLE_PROPS[prop][0])
    ck = Check(prop, tier)
    prefixes, extra = TABLE_PROPS[prop]
    pool = ThreadPoolExecutor(max_workers=1)
    fut = pool.submit(run_models, ck, prop, tier)
    cdir, fam = family(tier)
    route_family(ck, prefixes, fam)
    if "sm" in extra:
        import checks_sm
        d = scratch("smtr")
        for name, path, summ in checks_sm.sm_traces("quick" if tier == "quick" else tier, d):
            tr = tlc_trace("SeatManagerTrace.tla", "SeatManagerTrace.cfg", path, timeout=3000, parts=12)
            ck.cov["trace_lines"] += tr["lines"]
            ck.cov.setdefault("pools", []).append({"pool": "seat-manager " + name, "lines": tr["lines"], "drift": len(tr["drift"])})
            ck.route(prefixes, tr, path, "vh " + name)
    fut.result()
    for r in fam.values():
        ck.cov["samples"] += sample_lines(r["file"])
    if prop == "C13":
        # which backend calls were made to fail in this run: (call kind, ordinal of the call within its hand)
        import re
        pts, n = set(), 0
        rx = re.compile(r'"ev":"spy","a":\{.*?"kind":"(\w+)".*?"gc":(\d+).*?\},"res":"fail"')
        for r in fam.values():
            with open(r["file"]) as f:
                for l in f:
                    if '"ev":"spy"' in l[:60]:
                        m = rx.search(l[:600])
                        if m:
                            n += 1
                            pts.add((m.group(1), int(m.group(2))))
        ck.cov["faults_injected"] = n
        ck.cov["distinct_fault_points"] = len(pts)
        ck.cov["fault_kinds"] = sorted(set(k for k, _ in pts))
        ck.cov["fault_rule"] = "a fault point is (backend call kind, ordinal of the call within its hand); every injected failure is one recorded spy line with res=fail"
    ck.assumptions = ["sequential driver: one external call at a time, the engine's own goroutines are the only concurrency (C16 covers concurrent callers)",
                      "scenario pools are seeded random (VERIF_SEED) over seat counts 2..10, three modes, ante / dealer-blind / no-SB structures, stacked and shuffled decks",
                      "known findings are matched by exact signatures (known_findings.json)"]
    return ck.finish({"explanation": "traces_validated_against_impl = scenarios (whole table life cycles) replayed on the real engine; trace_lines = recorded observations judged by TLC"})


for _p in TABLE_PROPS:
    register(_p)(table_check)


@register("C17")
def check_c17(prop, tier, replay):
    """Every manager operation = the engine operation on that table, nothing else touched, unknown ids refused.
    The scenario pools of the table family are replayed THROUGH a pokertable.Manager (the driver's engine handle is a
    wrapper that calls m.<Method>(tableID, ...)), next to two bystander tables; every clause of the table property layer
    is then an effect predicate for the manager method that produced the line (a method forwarding to the wrong engine
    call, or with permuted arguments, fails the clause for that call), bystander tables' JSON is compared across every
    call, and every method is probed with a never-created id and with the own id after Close/Release."""
    ck = Check(prop, tier)
    build_harness()
    pool = ThreadPoolExecutor(max_workers=1)
    def mgr_models():
        res = [tlc_mc("ManagerMC.tla", "MGR_mc.cfg", 6, 1200), tlc_mc("ManagerReg.tla", "MGR_reg.cfg", 6, 1200)]
        dev = tlc_mc("ManagerReg.tla", "MGR_snapshot.cfg", 4, 600, extra=["-deadlock"])     # the named deviation must be refuted
        return res, dev
    fut = pool.submit(mgr_models)
    d = scratch("mgr")
    methods = {}
    # ---- the registry under calls that arrive while another table's create / close is in progress (ManagerReg / ManagerTrace)
    regout = os.path.join(d, "mgrreg.ndjson")
    summ = vlib.vh(["mgrreg", "--from", vlib.seed() * 100000 + 1, "--count", 400 if tier == "quick" else 6000, "--out", regout], timeout=1800)
    trr = tlc_trace("ManagerTrace.tla", "ManagerTrace.cfg", regout, timeout=1800, parts=8 if tier == "quick" else 16, by_trace=True)
    ck.cov["trace_lines"] += trr["lines"]
    ck.cov["traces_validated_against_impl"] += summ.get("scenarios", 0)
    ck.cov.setdefault("pools", []).append({"pool": "registry (vh mgrreg)", "scenarios": summ.get("scenarios", 0), "lines": trr["lines"],
                                           "calls_made_inside_or_during_another_tables_create_or_close": summ.get("nested", 0)})
    ck.route(["C17_"], trr, regout, "vh mgrreg")
    for name in MANAGER_POOLS:
        path, summ, crashed = run_pool(name, tier, d, via="manager")
        tr = tlc_trace("TableTrace.tla", "TableTrace.cfg", path, timeout=3000, parts=14, by_trace=True)
        ck.cov["trace_lines"] += tr["lines"]
        ck.cov["traces_validated_against_impl"] += summ.get("scenarios", 0)
        ck.cov.setdefault("pools", []).append({"pool": name, "scenarios": summ.get("scenarios", 0), "lines": tr["lines"], "crashed_workers": len(crashed)})
        # a recorded finding of the engine itself shows through the manager unchanged: that is what C17 asks for, not a C17 matter
        inherited = [v for v in tr["viol"] if v[2] and v[2] in ck.findings.open]
        ck.cov["engine_findings_seen_through_manager"] = ck.cov.get("engine_findings_seen_through_manager", 0) + len(inherited)
        tr = dict(tr, viol=[v for v in tr["viol"] if not (v[2] and v[2] in ck.findings.open)])
        ck.route(["C"], tr, path, "vh table --via manager, pool " + name)
        with open(path) as f:
            for l in f:
                if l.startswith('{"tr"') and ('"ev":"ret:' in l[:60] or '"ev":"mgrprobe"' in l[:60]):
                    dd = json.loads(l)
                    m = dd["ev"][4:] if dd["ev"].startswith("ret:") else "probe:" + dd["a"]["kind"]
                    methods[m] = methods.get(m, 0) + 1
        ck.cov["samples"] += sample_lines(path)[:1]
    ck.cov["manager_methods_exercised"] = methods
    rs, dev = fut.result()
    for r in rs:
        require_mc(r, r["spec"])
        ck.add_model(r, "registry model: forwarding, isolation, not-found" if r["spec"] == "ManagerMC.tla" else
                     "registry at Begin / End granularity: a live table is found, a closed / released / never created one is not, whatever begins and ends in between")
    if not dev.get("violated"):
        raise Inconclusive("ManagerReg with SnapshotDelete = TRUE should violate I_LiveFound (the model has lost its sensitivity)")
    ck.cov["models"].append({"what": "named deviation SnapshotDelete (close publishes the look-up snapshot minus the id): refuted by TLC as expected",
                             "spec": "ManagerReg.tla", "cfg": "MGR_snapshot.cfg", "violated": dev["violated"]})
    ck.assumptions = ["the manager builds its own engine with the native backend, so backend-call clauses (spy lines) are not available in this mode",
                      "known findings of the engine itself are matched by their signatures exactly as in the direct pools"]
    return ck.finish({"explanation": "traces_validated_against_impl = scenarios driven through the Manager API next to bystander tables"})


@register("C20")
def check_c20(prop, tier, replay):
    """Observers never see hidden cards; every actor gets its own copy.  The scenario pools are run with three actors
    (non-system observer, system observer, second observer; attachment order varies) attached to every table update
    through real TableEngineAdapters; TLC judges every view each actor received and the engine's table afterwards."""
    ck = Check(prop, tier)
    build_harness()
    pool = ThreadPoolExecutor(max_workers=1)
    fut = pool.submit(run_models, ck, "C20", tier)
    d = scratch("act")
    views = {}
    for name in ACTOR_POOLS:
        path, summ, crashed = run_pool(name, tier, d, actors=True)
        tr = tlc_trace("TableTrace.tla", "TableTrace.cfg", path, timeout=3000, parts=14, by_trace=True)
        ck.cov["trace_lines"] += tr["lines"]
        ck.cov["traces_validated_against_impl"] += summ.get("scenarios", 0)
        ck.cov.setdefault("pools", []).append({"pool": name, "scenarios": summ.get("scenarios", 0), "lines": tr["lines"], "crashed_workers": len(crashed)})
        ck.route(["C20_"], tr, path, "vh table --actors, pool " + name)
        with open(path) as f:
            for l in f:
                if '"ev":"actorview"' in l[:70]:
                    dd = json.loads(l)
                    h = dd["st"]["hand"]
                    key = "%s/%s/%s" % (dd["a"]["kind"], dd["st"]["status"], h[0]["ev"] if h else "-")
                    views[key] = views.get(key, 0) + 1
                    if h and len(ck.cov["samples"]) < 3 and views[key] == 1 and dd["a"]["kind"] == "observer":
                        ck.cov["samples"].append({"actor": dd["a"]["kind"], "status": dd["st"]["status"], "hand": {k: h[0][k] for k in ("ev", "deck", "burned")},
                                                  "players": [[p["hole"], p["combo"], p["fold"]] for p in h[0]["p"]]})
    ck.cov["views_by_actor_status_event"] = views
    fut.result()
    ck.assumptions = ["the views are those of real observerRunner actors behind real tableEngineAdapters; adapters of other kinds are not covered"]
    return ck.finish({"explanation": "traces_validated_against_impl = scenarios with actors attached; every actor view is one judged line"})
