"""C16: concurrent callers see one-at-a-time behaviour.
  1. TLC model-checks the sequential specifications the batches are linearised against (TableMembersMC, SeatManagerMC).
  2. vh conc issues batches of membership calls / seat-manager assignments / game actions from as many goroutines at the
     same instant (several GOMAXPROCS settings), plus forced schedules: one call parked inside its critical section at a
     verif hook point while a conflicting call is issued.
  3. ConcTrace.tla searches, per batch, an order in which the sequential model gives exactly the recorded results and
     final state; for action storms the accepted actions must each be the then-current player's move."""
import os, json, subprocess, shutil
from concurrent.futures import ThreadPoolExecutor
import vlib
from vlib import Check, tlc_mc, tlc_trace, require_mc, scratch, build_harness, log, Inconclusive, VH, GOENV
from checks import register


BLANK = {"status": "none", "gc": 0, "start": False, "nseat": 0, "minp": 0, "rule": "", "mode": "", "actiontime": 0, "players": [], "seatmap": [], "gpi": [],
         "dealer": 0, "sb": 0, "bb": 0, "blind": [], "gblind": [], "deadline": 0, "la": [], "nextbb": [], "hand": [], "serial": 0,
         "sm": {"seat": [], "dealer": 0, "sb": 0, "bb": 0, "inited": False, "extra": 0}, "gate": {"gc": 0, "parts": []}, "released": False, "tid": ""}


@register("C16")
def check_c16(prop, tier, replay):
    ck = Check(prop, tier)
    build_harness()
    pool = ThreadPoolExecutor(max_workers=1)

    def models():
        return [tlc_mc("TableMembersMC.tla", "TM_mc3.cfg", 6, 1200), tlc_mc("SeatManagerMC.tla", "SM_mc3.cfg", 6, 1200)]
    fut = pool.submit(models)
    d = scratch("conc")

    # ---- the lock-level model (Conc.tla).  With every lock in place each interleaving of each batch must be serialisable;
    # with one lock left out TLC prints the interleavings that are not -- those are the schedules forced on the real code.
    def conc_models():
        res = {"locked": [], "sched": {}}
        cfgs = ["Conc_locked2.cfg", "Conc_sm_locked2.cfg"] + (["Conc_locked3.cfg", "Conc_sm_locked3.cfg"] if tier == "thorough" else [])
        def one(c):
            if c.startswith("Conc_noLock"):
                return c, tlc_mc("Conc.tla", c, 4, 1200, extra=["-deadlock"])
            return c, tlc_mc("Conc.tla", c, 6, 1800)
        with ThreadPoolExecutor(max_workers=3) as ex:
            for c, r in ex.map(one, cfgs + ["Conc_noLockReserve.cfg", "Conc_noLockLeave.cfg", "Conc_noLockUpdate.cfg", "Conc_noLockSM.cfg"]):
                if not c.startswith("Conc_noLock"):
                    res["locked"].append(r)
                    continue
                lines = []
                for l in r["out"].splitlines():
                    if l.startswith('<<"SCHED", '):
                        try:
                            lines.append(json.loads(json.loads(l[len('<<"SCHED", '):-2])))
                        except Exception:
                            pass
                res["sched"][c] = (r, lines)
        return res
    pool2 = ThreadPoolExecutor(max_workers=1)
    futc = pool2.submit(conc_models)
    per = 40 if tier == "quick" else 300
    base = vlib.seed() * 100000
    jobs = []
    for procs in (0, 0, 0, 0, 1, 2, 4, 64):
        out = os.path.join(d, "conc-%02d.ndjson" % len(jobs))
        cmd = [VH, "conc", "--from", str(base + 1000 * len(jobs) + 1), "--count", str(per), "--out", out]
        if procs:
            cmd += ["--procs", str(procs)]
        jobs.append((cmd, out))

    # the table's auto-sit-in machinery under a stream of reserve / sit-in / leave calls (own processes: a panic there
    # takes the process down)
    nchurn = 3 if tier == "quick" else 12
    for i in range(nchurn):
        out = os.path.join(d, "churn-%02d.ndjson" % i)
        jobs.append(([VH, "churn", "--from", str(base + 50000 + 10 * i), "--count", "3", "--secs", "2" if tier == "quick" else "5", "--out", out], out))

    def run(job):
        cmd, out = job
        return job, subprocess.run(cmd, capture_output=True, text=True, timeout=2400, env=GOENV)
    files, scen, crashed = [], 0, 0
    with ThreadPoolExecutor(max_workers=8) as ex:
        for (cmd, out), p in ex.map(run, jobs):
            if p.returncode != 0:
                # the engine process died: that is a line of the trace like any other, with what the panic message identifies
                crashed += 1
                err = p.stderr
                log("vh %s worker died: %s\n ...\n%s" % (cmd[1], err[:1200], err[-400:]))
                try:
                    os.makedirs(os.path.join(vlib.OUT, "replay"), exist_ok=True)
                    open(os.path.join(vlib.OUT, "replay", "C16-crash-%d.stderr.txt" % crashed), "w").write(err[:400000])
                except Exception:
                    pass
                sig = ""
                # the goroutine that crashed is the first of the dump; the recorded finding is a crash INSIDE one of the two
                # lock-free readers of the player list (auto sit-in completion, PlayerJoin)
                first = err.split("\n\ngoroutine ", 2)
                crashed_in = first[1] if len(first) > 1 else err
                memfault = any(x in err for x in ("index out of range", "nil pointer dereference", "unexpected fault address", "SIGSEGV", "SIGBUS"))
                if memfault and ("playersAutoIn.func" in crashed_in or ").PlayerJoin(" in crashed_in):
                    sig = "autoin-race-panic"
                with open(out, "a") as f:
                    f.write(json.dumps({"tr": 0, "n": 999999, "ev": "crash", "procs": 0, "ops": [], "pre": BLANK, "st": BLANK, "smpre": {"seat": []}, "smst": {"seat": []},
                                        "note": err[-300:], "sig": sig, "acc": 0, "mover": ""}) + "\n")
            try:
                scen += json.loads([l for l in p.stdout.splitlines() if l.startswith("{")][-1]).get("scenarios", 0)
            except Exception:
                pass
            files.append(out)
    # ---- forced schedules from the lock-level model
    import random
    cm = futc.result()
    rnd = random.Random(vlib.seed())
    per_cfg = 120 if tier == "quick" else 2500
    sched_stats = {}
    sjobs = []
    for c, (r, lines) in sorted(cm["sched"].items()):
        if r.get("error") or r.get("violated"):
            raise Inconclusive("Conc.tla/%s: TLC did not complete: %s\n%s" % (c, r.get("error") or r.get("violated"), r["out"][-1500:]))
        if not lines:
            raise Inconclusive("Conc.tla/%s printed no schedule: with a lock left out the model must have non-serialisable interleavings" % c)
        pick = lines if len(lines) <= per_cfg else rnd.sample(lines, per_cfg)
        sched_stats[c] = {"non_serialisable_terminal_states": len(lines), "forced": len(pick), "states": r.get("states"), "distinct": r.get("distinct")}
        nparts = 4
        for k in range(nparts):
            part = pick[k::nparts]
            if not part:
                continue
            fin = os.path.join(d, "sched-%s-%d.json" % (c[:-4], k))
            with open(fin, "w") as g:
                for x in part:
                    g.write(json.dumps(x) + "\n")
            out = os.path.join(d, "sched-%s-%d.ndjson" % (c[:-4], k))
            sjobs.append(([VH, "sched", "--in", fin, "--out", out], out, c))
    with ThreadPoolExecutor(max_workers=4) as ex:
        for (cmd, out, c), p in ex.map(lambda j: (j, subprocess.run(j[0], capture_output=True, text=True, timeout=2400, env=GOENV)), sjobs):
            if p.returncode != 0:
                raise Inconclusive("vh sched died: " + p.stderr[-800:])
            try:
                summ = json.loads([l for l in p.stdout.splitlines() if l.startswith("{")][-1])
                for k2 in ("blocked", "ran", "diverged", "hang"):
                    sched_stats[c][k2] = sched_stats[c].get(k2, 0) + summ.get(k2, 0)
            except Exception:
                pass
            files.append(out)
    ck.cov["forced_schedules_from_model"] = sched_stats
    merged = os.path.join(d, "conc.ndjson")
    with open(merged, "wb") as g:
        for f in files:
            if os.path.exists(f):
                for l in open(f, "rb"):
                    try:
                        json.loads(l)
                        g.write(l)
                    except Exception:
                        pass
    ck.cov["workers_died"] = crashed
    tr = tlc_trace("ConcTrace.tla", "ConcTrace.cfg", merged, timeout=2400, parts=12)
    ck.cov["trace_lines"] = tr["lines"]
    ck.cov["traces_validated_against_impl"] = tr["lines"]
    kinds = {}
    with open(merged) as f:
        for i, l in enumerate(f):
            dd = json.loads(l)
            key = dd["ev"] + (":" + dd["note"] if dd.get("note") else "")
            kinds[key] = kinds.get(key, 0) + 1
            if dd["ev"] in ("batch", "actbatch") and len(ck.cov["samples"]) < 2 and i % 7 == 3:
                ck.cov["samples"].append({"ev": dd["ev"], "procs": dd["procs"], "ops": dd["ops"], "note": dd["note"]})
    ck.cov["pools"] = [{"scenarios": scen, "batches_by_kind": kinds, "gomaxprocs": [16, 1, 2, 4, 64]}]
    ck.route(["C16_"], tr, merged, "vh conc")
    for r in fut.result():
        require_mc(r, r["spec"] + "/" + r["cfg"])
        ck.add_model(r, "sequential specification the concurrent batches are linearised against")
    for r in cm["locked"]:
        require_mc(r, r["spec"] + "/" + r["cfg"])
        ck.add_model(r, "lock-level model: every interleaving of every batch at hook-point granularity is serialisable and leaves C03 intact")
    for c, (r, lines) in sorted(cm["sched"].items()):
        ck.add_model(r, "lock-level model with one lock left out: %d non-serialisable terminal states, each printed as a schedule" % len(lines))
    ck.assumptions = ["interleavings are sampled (goroutine storms under several GOMAXPROCS settings) and forced at hook-point granularity; TLC cannot explore the Go scheduler",
                      "the race detector is not used"]
    return ck.finish({"explanation": "traces_validated_against_impl = concurrent batches whose results and final state TLC matched against some serial order of the sequential model"})
