"""Registry of per-property checks."""
REGISTRY = {}

def register(*props):
    def deco(fn):
        for p in props:
            REGISTRY[p] = fn
        return fn
    return deco

import checks_sm  # noqa: E402,F401
import checks_table  # noqa: E402,F401
import checks_gate  # noqa: E402,F401
import checks_conc  # noqa: E402,F401
import checks_actors  # noqa: E402,F401
