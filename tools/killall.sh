#!/bin/sh
# stop every background check / TLC / harness process started from this sandbox session
for pat in 'run_all' 'verif/check' './check' 'tlc2.TLC' 'bin/vh' 'seeded_run' 'confirm_seeded'; do
  pgrep -f "$pat" | while read p; do [ "$p" != "$$" ] && kill "$p" 2>/dev/null; done
done
exit 0
