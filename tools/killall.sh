#!/bin/sh
# stop background checks / TLC / harness processes (patterns are anchored at the start of the command line so that the
# shell that runs this script is never matched)
pkill -f '^/bin/sh \./tools/run_all' 2>/dev/null
pkill -f '^[^ ]*python3[^ ]* \./check ' 2>/dev/null
pkill -f '^[^ ]*python3[^ ]* tools/seeded_run' 2>/dev/null
pkill -x java 2>/dev/null
pkill -x vh 2>/dev/null
exit 0
