#!/usr/bin/env python3
"""Parse every spec under /verif/spec with SANY (setup-time sanity)."""
import os, subprocess, sys, tempfile, shutil
V = os.path.dirname(os.path.dirname(os.path.abspath(__file__)))
S = os.path.join(V, "spec")
d = tempfile.mkdtemp(prefix="sany-", dir=os.path.join(V, "out")) if os.path.isdir(os.path.join(V, "out")) else tempfile.mkdtemp()
bad = 0
try:
    for f in os.listdir(S):
        if f.endswith(".tla"): shutil.copy(os.path.join(S, f), d)
    for f in sorted(os.listdir(d)):
        p = subprocess.run(["java", "-cp", "/opt/veriftools/tla/tla2tools.jar:/opt/veriftools/tla/CommunityModules-deps.jar", "tla2sany.SANY", f], cwd=d, capture_output=True, text=True)
        ok = p.returncode == 0 and "rror" not in p.stdout.replace("Semantic errors", "").replace("0 errors", "")
        if not ok and ("*** Errors" in p.stdout or "Parse Error" in p.stdout or "Fatal" in p.stdout):
            bad += 1; print("SANY FAILED", f, p.stdout[-800:])
    print("sany: %d modules, %d failed" % (len(os.listdir(d)), bad))
finally:
    shutil.rmtree(d, ignore_errors=True)
sys.exit(1 if bad else 0)
