#!/bin/sh
# trun.sh <spec> <trace> : run a trace spec over one file, print VIOL/DRIFT tuples (debug helper)
d=$(mktemp -d /tmp/trun.XXXX); cp /verif/spec/*.tla /verif/spec/*.cfg $d; cd $d
TRACE=$2 java -XX:+UseSerialGC -Xmx4g -Xss64m -cp /opt/veriftools/tla/tla2tools.jar:/opt/veriftools/tla/CommunityModules-deps.jar tlc2.TLC -metadir $d/md -workers 1 -config $1.cfg $1.tla 2>&1 | grep -E '^<<|Error|rror:|line [0-9]+, col' | head -${3:-400}
rm -rf $d
