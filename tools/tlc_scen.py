"""TLC-generated schedules for the table driver (spec -> code direction).

tlc -simulate over spec/TableLifeSim.tla prints behaviours of the life-cycle model as label histories; each history
becomes one driver scenario in which every external call is made in the window of the asynchronous life cycle the
model put it in.  The windows are realised with the verif hook points: the engine goroutine is parked at
gate.fire / ugs.enter / continue.reset while the driver makes the calls.

  generate(n, seed, workdir) -> path of a JSON list of scenarios (vh table --scenario)
"""
import os, re, json, subprocess, shutil
import vlib

LEVEL = {0: [0, 0, 0, 0, 0], 1: [1, 0, 0, 1, 2], 2: [2, 1, 0, 2, 4], -1: [-1, 0, 0, 0, 0]}
MAX_PLANS = 7
MAX_NOOPEN = 2


def histories(n, seed, workdir, depth=40):
    d = os.path.join(workdir, "tlcsim-%d" % seed)
    shutil.rmtree(d, ignore_errors=True)
    os.makedirs(d)
    for f in ("TableLife.tla", "TableLifeSim.tla", "TL_sim.cfg"):
        shutil.copy(os.path.join(vlib.VERIF, "spec", f), d)
    cmd = ["tlc", "-workers", "1", "-deadlock", "-simulate", "num=%d" % n, "-depth", "600", "-seed", str(seed),
           "-metadir", os.path.join(d, "md"), "-config", "TL_sim.cfg", "TableLifeSim.tla"]
    p = subprocess.run(cmd, cwd=d, capture_output=True, text=True, timeout=900)
    out = []
    for l in p.stdout.splitlines():
        m = re.match(r'<<"HIST", "(.*)">>$', l)
        if m:
            out.append(json.loads(m.group(1).encode().decode("unicode_escape")))
    if len(out) < n // 2:
        raise vlib.Inconclusive("tlc -simulate produced %d of %d behaviours: %s" % (len(out), n, (p.stdout + p.stderr)[-800:]))
    shutil.rmtree(d, ignore_errors=True)
    return out


def convert(h, seed):
    init = h[0]["x"]
    stack = [6, 9, 20][seed % 3]
    sc = {"seed": seed, "n": 3 + seed % 3, "mode": ["ct", "cash", "mtt"][seed % 3], "rule": "default", "minp": 2,
          "actiontime": [0, 30][seed % 2], "blind": LEVEL[init["blind"]], "minchip": 1, "steps": [], "tags": ["tlc-schedule"]}
    steps = sc["steps"]
    for p in ("p1", "p2", "p3"):
        steps.append({"op": {"op": "reserve", "id": p, "seat": -1, "chips": stack}})
        if p in init["inn"]:
            steps.append({"op": {"op": "join", "id": p}})
    steps.append({"op": {"op": "start"}})

    def new_plan(k):
        return {"policy": "passive", "shuffleans": k % 2 == 0, "inj": []}
    plans, plan, slot, noopen, retries = 0, new_plan(0), "prefinish", 0, 0

    def put(op):
        inj = plan["inj"]
        if inj and inj[-1]["at"] == slot:
            inj[-1]["ops"].append(op)
        else:
            inj.append({"at": slot, "ops": [op]})

    def close_plan():
        nonlocal plan, slot, plans
        steps.append({"hand": plan})
        plans += 1
        plan, slot = new_plan(plans), "prefinish"

    for i, e in enumerate(h[1:]):
        a, x = e["a"], e["x"]
        if plans >= MAX_PLANS or noopen > MAX_NOOPEN:
            break
        if a == "setup":
            put({"op": "setup", "ids": list(x)})
        elif a == "finish":
            put({"op": "finish", "id": x})
        elif a == "rebuy":
            if slot.startswith("g:open.retry"):
                # the engine is parked with its lock held: only the call that takes no lock can land here (PlayerRedeemChips)
                put({"op": "redeem", "id": x, "chips": stack})
            else:
                put({"op": "reserve", "id": x, "seat": -1, "chips": stack})
        elif a == "sitin":
            put({"op": "join", "id": x})
        elif a == "leave":
            if not slot.startswith("g:open.retry"):
                put({"op": "leaveout", "ids": [x]})
        elif a == "addon":
            put({"op": "redeem", "id": x, "chips": 1 + (i % 5)})
        elif a == "blind":
            put({"op": "blind", "blind": LEVEL[x]})
        elif a in ("pause", "close", "release"):
            put({"op": a})
        elif a == "gatefire":
            if slot == "prefinish":
                slot = "g:gate.fire"
            else:
                put({"op": "finishall"})
                put({"op": "sleep", "amt": 30})
        elif a == "open":
            if slot == "g:gate.fire":
                if x == 1:
                    slot = "g:ugs.enter"
                elif x == 2:
                    retries += 1
                    slot = "g:open.retry"
                else:
                    noopen += 1
                    close_plan()
        elif a == "openretry":
            if slot.startswith("g:open.retry"):
                if not (plan["inj"] and plan["inj"][-1]["at"] == slot):
                    put({"op": "sleep", "amt": 1})       # the window exists even if the model put nothing into it
                if x == 1:
                    slot = "g:ugs.enter"
                elif x == 2:
                    retries += 1
                    slot = "g:open.retry#%d" % retries
                else:
                    noopen += 1
                    close_plan()
        elif a == "publish":
            slot = ["ready1", "turn0", "blinds", "turn1"][i % 4]
        elif a == "settle":
            if set(x["keep"]) != set(x["dealt"]):
                plan["policy"] = "aggro"
            slot = "g:continue.reset"
        elif a == "continue":
            close_plan()
    steps.append({"hand": plan})
    return sc


def generate(n, seed, workdir):
    hs = histories(n, seed, workdir)
    scs = [convert(h, seed * 1000 + i + 1) for i, h in enumerate(hs)]
    path = os.path.join(workdir, "tlc-scenarios-%d.json" % seed)
    json.dump(scs, open(path, "w"))
    return path, len(scs)


if __name__ == "__main__":
    import sys
    path, k = generate(int(sys.argv[1]), int(sys.argv[2]), sys.argv[3])
    print(path, k)
