"""Seat-manager family: C04 (and the seat-manager share of C03 / C05, reused by their own checks).

Pipeline (DESIGN.md 3.1, 5/C04):
  1. TLC model-checks SeatManagerMC (tight model + property layer) exhaustively for small N.
  2. vh sm-bfs explores the reachable state graph of the REAL seat manager (same operations, every state)
     and logs every transition; vh sm-walk adds seeded random walks for N = 2..10.
  3. SeatManagerTrace evaluates every property clause on every recorded transition (verdict) and checks the
     transition against the tight model (conformance; a mismatch is DRIFT, never a violation).
"""
import os, json
import vlib
from vlib import Check, tlc_mc, tlc_trace, require_mc, vh, scratch, build_harness, log
from checks import register

MC = {"quick": [("SM_mc3.cfg", 300), ("SM_mc4.cfg", 600), ("SM_mc4sd.cfg", 300)],
      "thorough": [("SM_mc3.cfg", 300), ("SM_mc4.cfg", 600), ("SM_mc4sd.cfg", 300), ("SM_mc5.cfg", 7200)]}


def sm_models(ck, tier):
    res = []
    for cfg, to in MC[tier]:
        r = tlc_mc("SeatManagerMC.tla", cfg, timeout=to, workers=8)
        res.append((cfg, r))
    return res


def sm_traces(tier, d):
    """Drive the real seat manager; returns list of (ndjson path, summary)."""
    build_harness()
    runs = []
    s = vlib.seed()
    jobs = [("bfs3", ["sm-bfs", "--n", 3, "--players", 3, "--maxbatch", 2, "--sample", 3 if tier == "quick" else 1]),
            ("bfs3sd", ["sm-bfs", "--n", 3, "--players", 3, "--maxbatch", 1, "--rule", "short_deck"]),
            ("bfs4", ["sm-bfs", "--n", 4, "--players", 3, "--maxbatch", 1, "--sample", 25 if tier == "quick" else 4]),
            ("walk", ["sm-walk", "--seed", s, "--walks", 400 if tier == "quick" else 6000, "--steps", 120])]
    if tier == "thorough":
        jobs += [("bfs4sd", ["sm-bfs", "--n", 4, "--players", 4, "--maxbatch", 1, "--rule", "short_deck", "--sample", 4]),
                 ("bfs5", ["sm-bfs", "--n", 5, "--players", 3, "--maxbatch", 1, "--sample", 12]),
                 ("bfs4b", ["sm-bfs", "--n", 4, "--players", 4, "--maxbatch", 1, "--sample", 10])]
    for name, args in jobs:
        out = os.path.join(d, name + ".ndjson")
        summ = vh(args + ["--out", out], timeout=3000)
        runs.append((name, out, summ))
    return runs


def run_sm_family(ck, tier, prefixes):
    from concurrent.futures import ThreadPoolExecutor
    pool = ThreadPoolExecutor(max_workers=1)
    fut = pool.submit(sm_models, ck, tier)
    d = scratch("smtr")
    for name, path, summ in sm_traces(tier, d):
        tr = tlc_trace("SeatManagerTrace.tla", "SeatManagerTrace.cfg", path, timeout=3000, parts=12)
        ck.cov["trace_lines"] += tr["lines"]
        ck.cov["traces_validated_against_impl"] += tr["lines"]
        ck.cov["drift_lines"] += len(tr["drift"])
        ck.cov.setdefault("drivers", []).append({"driver": name, "summary": summ, "lines": tr["lines"], "drift": len(tr["drift"]),
                                                 "tlc_wall_s": round(tr["wall_s"], 1)})
        if tr["drift"]:
            log("DRIFT %s: %d transitions of the real seat manager are not transitions of the tight model, e.g. line %s"
                % (name, len(tr["drift"]), tr["drift"][0]))
        ck.route(prefixes, tr, path, "vh " + name)
        if len(ck.cov["samples"]) < 3:
            import itertools
            with open(path) as f:
                for l in itertools.islice(f, 40, 41):
                    ck.cov["samples"].append(json.loads(l))
    for cfg, r in fut.result():
        require_mc(r, "SeatManagerMC/" + cfg)
        ck.add_model(r, "exhaustive: every seat-manager operation from every reachable state")


@register("C04")
def check_c04(prop, tier, replay):
    ck = Check(prop, tier)
    ck.assumptions = ["exhaustive for seat counts 3..4 (thorough: 5) and 3..4 player ids modulo renaming; seat counts up to 10 sampled by random walks",
                      "the two recorded rule findings are matched by their exact TLA+ signatures (known_findings.json)"]
    run_sm_family(ck, tier, ["C04_", "C03_noPanic"])
    return ck.finish({"explanation": "states/transitions: TLC exhaustive runs of SeatManagerMC; traces_validated_against_impl: transitions of the real "
                      "seat_manager (BFS over its reachable states + random walks) on which every C04 clause was evaluated by TLC"})
