"""C09: the open-game gate.
  1. TLC model-checks OpenGame.tla (goroutine-level model of open_game_manager over syncsaga.ReadyGroup, repaired design)
     against the abstract-gate invariants.
  2. vh gate drives the REAL open_game_manager: calm (call granularity), restore (a second gate rebuilt from the saved
     state gets the same suffix), racy (calls back to back, also with GOMAXPROCS(1): re-set-up with signals in flight).
  3. GateTrace.tla judges every callback against the abstract gate (per set-up records, microsecond timestamps)."""
import os, json, subprocess, shutil
from concurrent.futures import ThreadPoolExecutor
import vlib
from vlib import Check, tlc_mc, tlc_trace, require_mc, scratch, build_harness, log, Inconclusive, VH, GOENV
from checks import register


@register("C09")
def check_c09(prop, tier, replay):
    ck = Check(prop, tier)
    build_harness()
    pool = ThreadPoolExecutor(max_workers=1)
    cfg = "OG_fixed_q.cfg" if tier == "quick" else "OG_fixed.cfg"
    fut = pool.submit(tlc_mc, "OpenGame.tla", cfg, 8, 1800)
    d = scratch("gate")
    per = 10 if tier == "quick" else 60
    nproc = 10 if tier == "quick" else 14
    base = vlib.seed() * 10000
    jobs = []
    for mode, extra in (("calm", []), ("restore", []), ("racy", []), ("racy", ["--procs", "1"])):
        for j in range(nproc if mode != "racy" else nproc // 2):
            out = os.path.join(d, "%s%s-%02d.ndjson" % (mode, "1" if extra else "", j))
            jobs.append(([VH, "gate", "--from", str(base + 1000 * len(jobs) + 1), "--count", str(per), "--mode", mode, "--out", out] + extra, out, mode))

    def run(job):
        cmd, out, mode = job
        p = subprocess.run(cmd, capture_output=True, text=True, timeout=1200, env=GOENV)
        return job, p
    files, hung, scen = [], 0, 0
    with ThreadPoolExecutor(max_workers=40) as ex:
        for (cmd, out, mode), p in ex.map(run, jobs):
            if p.returncode != 0:
                raise Inconclusive("vh gate died: " + p.stderr[-800:])
            try:
                s = json.loads([l for l in p.stdout.splitlines() if l.startswith("{")][-1])
                scen += s.get("scenarios", 0)
                hung += s.get("hung", 0)
            except Exception:
                pass
            files.append(out)
    merged = os.path.join(d, "gate.ndjson")
    with open(merged, "wb") as g:
        for f in files:
            with open(f, "rb") as h:
                shutil.copyfileobj(h, g)
    tr = tlc_trace("GateTrace.tla", "GateTrace.cfg", merged, timeout=1800, parts=8, by_trace=True)
    ck.cov["trace_lines"] = tr["lines"]
    ck.cov["traces_validated_against_impl"] = scen
    ck.cov["pools"] = [{"modes": "calm, restore, racy, racy with GOMAXPROCS(1)", "scenarios": scen, "lines": tr["lines"], "hung_workers": hung}]
    ck.route(["C09_"], tr, merged, "vh gate")
    with open(merged) as f:
        for i, l in enumerate(f):
            if i in (3, 40):
                ck.cov["samples"].append(json.loads(l))
            if i > 40:
                break
    r = fut.result()
    require_mc(r, "OpenGame/" + cfg)
    ck.add_model(r, "exhaustive: set-up sub-steps, channel/consumer per ready group, spawned completions, timer; abstract-gate invariants")
    ck.assumptions = ["time-out clauses use the recorder's microsecond clock with a 40 ms tolerance",
                      "racy mode samples the goroutine interleavings of re-set-up with pending signals; the exhaustive statement about them is the TLC run of OpenGame.tla"]
    return ck.finish({"explanation": "traces_validated_against_impl = gate scenarios run on the real open_game_manager and judged by TLC against the abstract gate"})
