"""Shared machinery of the /verif orchestrator (python3 standard library only).

  build_harness()            build /verif/harness/bin/vh from /repo's working tree with -tags verif
  tlc_mc(...)                exhaustive / simulation model checking of a spec + cfg
  tlc_trace(...)             verdict + conformance run of a trace spec over ndjson files (parallel chunks)
  Findings, Evidence         known-finding routing and evidence files
Exit codes of a check: 0 held, 1 violation (a VIOLATION line was printed), 2 inconclusive.
"""
import json, os, re, shutil, subprocess, sys, tempfile, time, hashlib
from concurrent.futures import ThreadPoolExecutor

VERIF = os.path.dirname(os.path.dirname(os.path.abspath(__file__)))
REPO = os.environ.get("VERIF_REPO", "/repo")
SPEC = os.path.join(VERIF, "spec")
OUT = os.path.join(VERIF, "out")
HARNESS = os.path.join(VERIF, "harness")
VH = os.path.join(HARNESS, "bin", "vh")
JAR = "/opt/veriftools/tla/tla2tools.jar:/opt/veriftools/tla/CommunityModules-deps.jar"
NCPU = os.cpu_count() or 8

GOENV = dict(os.environ, GOFLAGS="-mod=mod", GOPROXY="off", GOSUMDB="off", GOTOOLCHAIN="local")


class Inconclusive(Exception):
    pass


def log(*a):
    print(*a, file=sys.stderr, flush=True)


def seed():
    try:
        return int(os.environ.get("VERIF_SEED", "1"))
    except ValueError:
        return 1


RUN_DIR = os.path.join(OUT, "scratch", "run-%d" % os.getpid())


def scratch(prefix):
    os.makedirs(RUN_DIR, exist_ok=True)
    return tempfile.mkdtemp(prefix=prefix + "-", dir=RUN_DIR)


def build_harness():
    """Always rebuild from the current working tree of REPO (go's build cache keeps it quick)."""
    gomod = os.path.join(HARNESS, "go.mod")
    txt = open(gomod).read()
    want = "replace github.com/weedbox/pokertable => " + REPO
    cur = re.search(r"^replace github.com/weedbox/pokertable => .*$", txt, re.M)
    if cur and cur.group(0) != want:
        open(gomod, "w").write(txt.replace(cur.group(0), want))
    shutil.copy(os.path.join(REPO, "go.sum"), os.path.join(HARNESS, "go.sum"))
    p = subprocess.run(["go", "build", "-tags", "verif", "-o", VH, "./cmd/vh"], cwd=HARNESS, env=GOENV,
                       capture_output=True, text=True)
    if p.returncode != 0:
        raise Inconclusive("harness build failed (does /repo compile with -tags verif?):\n" + p.stderr[-3000:])
    return VH


def vh(args, timeout=600, stdout_json=True, env=None):
    """Run a harness sub-command; its stdout is one JSON summary line."""
    e = dict(GOENV)
    if env:
        e.update(env)
    p = subprocess.run([VH] + [str(a) for a in args], capture_output=True, text=True, timeout=timeout, env=e)
    if p.returncode != 0:
        raise Inconclusive("vh %s exited %d: %s" % (args[0], p.returncode, p.stderr[-2000:]))
    if not stdout_json:
        return p.stdout
    last = [l for l in p.stdout.splitlines() if l.startswith("{")]
    return json.loads(last[-1]) if last else {}


def _java(heap, serial=False):
    gc = ["-XX:+UseSerialGC", "-XX:CICompilerCount=2"] if serial else ["-XX:+UseParallelGC"]
    return ["java"] + gc + ["-Xmx" + heap, "-Xss64m", "-cp", JAR, "tlc2.TLC"]


def _stage(specs_dir, names):
    d = scratch("tlc")
    for f in os.listdir(specs_dir):
        if f.endswith(".tla") or f.endswith(".cfg"):
            shutil.copy(os.path.join(specs_dir, f), d)
    return d


def tlc_mc(spec, cfg, workers=NCPU, timeout=900, heap="12g", simulate=None, depth=None, extra=None, env=None, coverage=False):
    """Model-check spec with cfg. Returns dict(states, distinct, ok, violated, out).
    An exhaustive run that took long and passed is remembered for six hours under a digest of all specification files and
    the configuration (the result does not depend on the implementation): the thorough series of the properties that share
    the big seat-manager model pay for it once."""
    ckey = None
    if simulate is None and not extra and not env and not coverage:
        h = hashlib.sha1()
        for f in sorted(os.listdir(SPEC)):
            if f.endswith(".tla") or f == cfg:
                h.update(f.encode())
                h.update(open(os.path.join(SPEC, f), "rb").read())
        ckey = os.path.join(OUT, "mccache", "%s-%s-%s.json" % (spec, cfg, h.hexdigest()[:16]))
        try:
            if time.time() - os.path.getmtime(ckey) < 6 * 3600:
                res = json.load(open(ckey))
                res["cached"] = True
                return res
        except Exception:
            pass
    d = _stage(SPEC, None)
    try:
        cmd = _java(heap) + ["-metadir", os.path.join(d, "md"), "-workers", str(workers)]
        if simulate:
            cmd += ["-simulate", simulate]
            if depth:
                cmd += ["-depth", str(depth)]
            cmd += ["-seed", str(seed())]
        if coverage:
            cmd += ["-coverage", "1"]
        if extra:
            cmd += extra
        cmd += ["-config", cfg, spec]
        e = dict(os.environ)
        if env:
            e.update(env)
        t0 = time.time()
        try:
            p = subprocess.run(cmd, cwd=d, capture_output=True, text=True, timeout=timeout, env=e)
            out = p.stdout + p.stderr
            timed_out = False
        except subprocess.TimeoutExpired as ex:
            out = (ex.stdout or b"").decode("utf8", "replace") if isinstance(ex.stdout, bytes) else (ex.stdout or "")
            timed_out = True
        res = {"out": out, "wall_s": time.time() - t0, "timed_out": timed_out, "spec": spec, "cfg": cfg}
        m = re.findall(r"(\d+) states generated, (\d+) distinct states found", out)
        if m:
            res["states"], res["distinct"] = int(m[-1][0]), int(m[-1][1])
        else:
            m = re.findall(r"Progress.*?: ([\d,]+) states (?:generated|checked)", out)
            res["states"] = int(m[-1].replace(",", "")) if m else 0
            res["distinct"] = 0
        m = re.findall(r"The number of states generated: (\d+)", out)
        if m:
            res["states"] = int(m[-1])
        res["violated"] = re.findall(r"(?:Invariant|Action property|Temporal property|property) (\S+) (?:is|was) violated", out)
        if "Temporal properties were violated" in out and not res["violated"]:
            res["violated"] = ["temporal"]
        err = re.search(r"Error: (?!.*violated)(.*)", out)
        res["error"] = err.group(1) if (err and not res["violated"]) else None
        res["ok"] = (not res["violated"]) and res["error"] is None and (simulate is not None or "Model checking completed" in out or timed_out and simulate)
        if simulate and timed_out:
            res["ok"] = not res["violated"] and res["error"] is None
        if ckey and res["ok"] and not timed_out and res["wall_s"] > 120:
            try:
                os.makedirs(os.path.dirname(ckey), exist_ok=True)
                json.dump(dict(res, out=res["out"][-3000:]), open(ckey, "w"))
            except Exception:
                pass
        return res
    finally:
        shutil.rmtree(d, ignore_errors=True)


def require_mc(res, what):
    """A model-checking step that does not complete cleanly makes the check inconclusive (never a violation)."""
    if res.get("violated"):
        raise Inconclusive("%s: model violates %s -- the model or the property layer is wrong for this tree, or a "
                           "candidate defect; it must be reproduced on the real code before it counts\n%s"
                           % (what, res["violated"], res["out"][-2500:]))
    if not res.get("ok"):
        raise Inconclusive("%s: TLC did not complete: %s\n%s" % (what, res.get("error"), res["out"][-2500:]))


def split_file(path, parts, d, by_trace=False):
    """Split an ndjson file into <= parts chunk files of whole lines (with by_trace: only where a new trace begins,
    i.e. at lines whose ev is "scenario"). Returns [(chunkpath, first_line_no, nlines)]."""
    with open(path, "rb") as f:
        lines = f.readlines()
    n = len(lines)
    if n == 0:
        return []
    per = max(1, (n + parts - 1) // parts)
    cuts = [0]
    i = per
    while i < n:
        if by_trace:
            while i < n and b'"ev":"scenario"' not in lines[i][:60] and not (b'"n":1,' in lines[i][:40]):
                i += 1
        if i < n:
            cuts.append(i)
        i += per
    cuts.append(n)
    res = []
    for c, (a, b) in enumerate(zip(cuts, cuts[1:])):
        if a == b:
            continue
        cp = os.path.join(d, "chunk%03d.ndjson" % c)
        with open(cp, "wb") as g:
            g.writelines(lines[a:b])
        res.append((cp, a + 1, b - a))
    return res


TUPLE = re.compile(r'^<<"(VIOL|DRIFT|INCOMPLETE|NOTE)"(.*)>>$')


def tlc_trace(spec, cfg, tracefile, parts=NCPU, timeout=900, heap="3g", env=None, by_trace=False):
    """Run a trace spec (verdict + conformance) over tracefile, split in parallel chunks.
    The spec reads IOEnv.TRACE, prints <<"VIOL", clause, k, tag>> / <<"DRIFT", k, ...>> and must consume every line.
    Returns dict(lines, viol=[(clause, lineno, tag)], drift=[lineno...], wall_s)."""
    d = _stage(SPEC, None)
    t0 = time.time()
    try:
        chunks = split_file(tracefile, parts, d, by_trace)
        if not chunks:
            return {"lines": 0, "viol": [], "drift": [], "wall_s": 0.0, "notes": []}

        def run(ch):
            cp, first, n = ch
            md = cp + ".md"
            e = dict(os.environ, TRACE=cp)
            if env:
                e.update(env)
            cmd = _java(heap, serial=True) + ["-metadir", md, "-workers", "1", "-config", cfg, spec]
            p = subprocess.run(cmd, cwd=d, capture_output=True, text=True, timeout=timeout, env=e)
            return ch, p.stdout + p.stderr

        viol, drift, notes = [], [], []
        total = 0
        with ThreadPoolExecutor(max_workers=min(NCPU, len(chunks))) as ex:
            for (cp, first, n), out in ex.map(run, chunks):
                total += n
                complete = "Model checking completed" in out
                for line in out.splitlines():
                    m = TUPLE.match(line.strip())
                    if not m:
                        continue
                    fields = [x.strip() for x in m.group(2).split(",") if x.strip() != ""]
                    fields = [x.strip('"') for x in fields]
                    if m.group(1) == "VIOL":
                        clause, k, tag = fields[0], int(fields[1]), (fields[2] if len(fields) > 2 else "")
                        viol.append((clause, first + k - 1, tag))
                    elif m.group(1) == "DRIFT":
                        drift.append((first + int(fields[0]) - 1, fields[1:]))
                    elif m.group(1) == "INCOMPLETE":
                        complete = False
                    else:
                        notes.append(fields)
                if not complete:
                    errs = [m.start() for m in re.finditer(r"^Error:", out, re.M)]
                    msg = "\n".join(out[e:e + 700] for e in errs[:3]) or out[-3000:]
                    raise Inconclusive("trace run of %s did not consume its chunk (first line %d):\n%s" % (spec, first, msg))
        viol = sorted(set(viol), key=lambda v: (v[1], v[0]))
        return {"lines": total, "viol": viol, "drift": sorted(set((k, tuple(r)) for k, r in drift)), "wall_s": time.time() - t0, "notes": notes}
    finally:
        shutil.rmtree(d, ignore_errors=True)


def read_line(path, lineno):
    with open(path, "rb") as f:
        for i, l in enumerate(f, 1):
            if i == lineno:
                return json.loads(l)
    return None


def save_trace(path, lineno, dest, limit=8 << 20):
    """Keep the whole recorded trace the failing line belongs to (for analysis; bounded)."""
    try:
        target = read_line(path, lineno)
        if target is None or "tr" not in target or "from" in target:
            return
        want = ('{"tr":%d,' % target["tr"]).encode()
        size = 0
        with open(path, "rb") as f, open(dest, "wb") as g:
            for l in f:
                if l.startswith(want):
                    g.write(l)
                    size += len(l)
                    if size > limit:
                        break
    except Exception:
        pass


def read_context(path, lineno, before=40):
    """The failing line and, for multi-line traces, the lines of the same trace leading up to it (bounded)."""
    ctx = []
    with open(path, "rb") as f:
        for i, l in enumerate(f, 1):
            if i > lineno:
                break
            if i >= lineno - before:
                ctx.append(l)
    out = []
    for l in ctx:
        try:
            out.append(json.loads(l))
        except Exception:
            pass
    if not out:
        return {}
    target = out[-1]
    if "from" in target:            # single-step transition records (seat manager / gate): the line is the whole case
        return {"line": target}
    same = [x for x in out if x.get("tr") == target.get("tr")]
    slim = []
    for x in same[:-1]:
        y = {k: x.get(k) for k in ("n", "ev", "a", "res")}
        st = x.get("st") or {}
        if x.get("ev") == "cb:updated" and st.get("status") in ("table_game_settled", "table_game_opened"):
            y["players"] = [[p["id"], p["seat"], p["bank"], p["in"], p["part"], p["pos"], p["stats"]] for p in st.get("players", [])]
            y["gpi"] = st.get("gpi")
        slim.append(y)
    res = {"line": target, "preceding": slim}
    # table traces begin with a "scenario" line that holds the whole scenario: keep it so the case can be re-run
    try:
        want = ('{"tr":%d,' % target.get("tr")).encode()
        with open(path, "rb") as f:
            for l in f:
                if l.startswith(want) and b'"ev":"scenario"' in l[:80]:
                    sc = json.loads(l)
                    res["scenario"] = json.loads(sc["a"]["note"])
                    res["scenario_via"] = sc["a"].get("kind", "")
                    break
    except Exception:
        pass
    return res


class Findings:
    """known_findings.json: {"findings":[{"id","property","status":"open"|"fixed",...}]}; read-only at run time."""

    def __init__(self):
        p = os.path.join(VERIF, "known_findings.json")
        self.items = json.load(open(p))["findings"] if os.path.exists(p) else []
        self.open = {f["id"]: f for f in self.items if f.get("status") == "open"}

    def is_open(self, tag, prop):
        f = self.open.get(tag)
        return f is not None and prop in f.get("properties", [f.get("property")])


class Check:
    """Book-keeping of one check run: violations, known findings, evidence, exit code."""

    def __init__(self, prop, tier, level="model_checking"):
        self.prop, self.tier, self.level = prop, tier, level
        self.t0 = time.time()
        self.findings = Findings()
        self.violations = []      # (clause, replay_path)
        self.known = {}           # tag -> count
        self.cov = {"states": 0, "transitions": 0, "traces_validated_against_impl": 0, "samples": [],
                    "models": [], "drift_lines": 0, "trace_lines": 0, "clauses": {}}
        self.assumptions = []
        os.makedirs(os.path.join(OUT, "replay"), exist_ok=True)

    def add_model(self, res, what):
        self.cov["states"] += res.get("distinct", 0) or res.get("states", 0)
        self.cov["transitions"] += res.get("states", 0)
        self.cov["models"].append({"what": what, "spec": res["spec"], "cfg": res["cfg"], "states_generated": res.get("states", 0),
                                   "distinct_states": res.get("distinct", 0), "wall_s": round(res["wall_s"], 1),
                                   "completed": not res.get("timed_out", False),
                                   "reused_from_cache_of_this_spec_digest": bool(res.get("cached"))})

    def violation(self, clause, payload):
        """payload may be a callable producing the replay case (evaluated only for the first few violations)."""
        n = len(self.violations) + 1
        path = os.path.join(OUT, "replay", "%s-%s-%d.json" % (self.prop, self.tier, min(n, 13)))
        if n <= 12:
            if callable(payload):
                payload = payload()
            tf = payload.pop("_tracefile", None) if isinstance(payload, dict) else None
            if tf and n <= 4:
                save_trace(tf[0], tf[1], path + ".trace.ndjson")
            json.dump({"property": self.prop, "clause": clause, "case": payload}, open(path, "w"), indent=1)
            print("VIOLATION property=%s replay=%s" % (self.prop, path), flush=True)
            log("  clause %s" % clause)
        self.violations.append((clause, path))

    def known_finding(self, tag, what):
        self.known[tag] = self.known.get(tag, 0) + 1
        if self.known[tag] == 1:
            print("KNOWN-FINDING: property=%s %s %s" % (self.prop, tag, what), flush=True)

    def route(self, clause_prefixes, tr, tracefile, what):
        """Route the VIOL tuples of a trace run that belong to this property."""
        for clause, lineno, tag in tr["viol"]:
            if not any(clause.startswith(p) for p in clause_prefixes):
                continue
            self.cov["clauses"][clause] = self.cov["clauses"].get(clause, 0) + 1
            if tag and self.findings.is_open(tag, self.prop):
                self.known_finding(tag, self.findings.open[tag].get("what", ""))
            else:
                self.violation(clause, lambda lineno=lineno, tag=tag: {"source": what, "trace_line": lineno, "tag": tag,
                                                                           "context": read_context(tracefile, lineno),
                                                                           "_tracefile": (tracefile, lineno)})

    def finish(self, extra=None):
        cov = self.cov
        if extra:
            cov.update(extra)
        ev = {"property_id": self.prop, "tier": self.tier, "seed": seed(), "level": self.level, "coverage": cov,
              "assumptions": self.assumptions, "wall_s": round(time.time() - self.t0, 1), "violations": len(self.violations),
              "known_findings": self.known}
        os.makedirs(os.path.join(VERIF, "evidence"), exist_ok=True)
        json.dump(ev, open(os.path.join(VERIF, "evidence", self.prop + ".json"), "w"), indent=1)
        if not os.environ.get("VERIF_KEEP"):
            shutil.rmtree(RUN_DIR, ignore_errors=True)
        if self.violations:
            log("%s: %d violation(s)" % (self.prop, len(self.violations)))
            return 1
        log("%s: held on everything explored (%s tier, %.0f s)" % (self.prop, self.tier, time.time() - self.t0))
        return 0
