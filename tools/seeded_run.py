#!/usr/bin/env python3
"""seeded_run.py [name ...]  -- run the quick check of the property each seeded change breaks, against a scratch
worktree of /repo with the change applied (the live /repo is not touched), from a scratch copy of /verif.
Writes /verif/seeded/RESULTS.json: which check caught which change, with the failing clauses."""
import json, os, re, shutil, subprocess, sys, time
V = "/verif"
names = sys.argv[1:] or sorted(d for d in os.listdir(os.path.join(V, "seeded")) if os.path.isdir(os.path.join(V, "seeded", d)))
pid = os.getpid()
vc, wt = "/tmp/vs-%d" % pid, "/tmp/vsrepo-%d" % pid
subprocess.run(["rsync", "-a", "--exclude", "out", "--exclude", ".git", V + "/", vc + "/"], check=True)
subprocess.run(["git", "-C", "/repo", "worktree", "add", "-q", "--detach", wt, "HEAD"], check=True)
resf = os.path.join(V, "seeded", "RESULTS.json")
results = json.load(open(resf)) if os.path.exists(resf) else {}
try:
    for n in names:
        d = os.path.join(V, "seeded", n)
        meta = json.load(open(os.path.join(d, "meta.json")))
        prop = meta["property"]
        subprocess.run("git checkout -- . && git clean -fdq", shell=True, cwd=wt)
        p = subprocess.run(["git", "apply", os.path.join(d, "patch.diff")], cwd=wt, capture_output=True, text=True)
        if p.returncode != 0:
            p = subprocess.run("patch -p1 --fuzz=3 < %s" % os.path.join(d, "patch.diff"), shell=True, cwd=wt, capture_output=True, text=True)
        if p.returncode != 0:
            results[n] = {"property": prop, "error": "patch does not apply: " + p.stderr[-300:]}
            continue
        t0 = time.time()
        extra = meta.get("also_run", [])
        caught, runs = False, []
        for pr in [prop] + extra:
            env = dict(os.environ, VERIF_REPO=wt, VERIF_SEED=os.environ.get("VERIF_SEED", "1"))
            q = subprocess.run(["./check", pr, "--tier", "quick"], cwd=vc, env=env, capture_output=True, text=True, timeout=3600)
            clauses = sorted(set(re.findall(r"clause (\S+)", q.stderr)))
            viol = len(re.findall(r"^VIOLATION property=", q.stdout, re.M))
            runs.append({"check": pr, "exit": q.returncode, "violation_lines": viol, "clauses": clauses,
                         "tail": (q.stderr[-400:] if q.returncode == 2 else "")})
            caught = caught or q.returncode == 1
        results[n] = {"property": prop, "caught": caught, "runs": runs, "wall_s": round(time.time() - t0), "summary": meta.get("summary", "")[:300]}
        print(n, "CAUGHT" if caught else "MISSED", [(r["check"], r["exit"], r["clauses"][:4]) for r in runs], flush=True)
        json.dump(results, open(resf, "w"), indent=1)
finally:
    subprocess.run(["git", "-C", "/repo", "worktree", "remove", "--force", wt])
    shutil.rmtree(vc, ignore_errors=True)
