package main

import (
	"fmt"
	"time"

	pt "github.com/weedbox/pokertable"
)

// recEngine is what the bots of an all-bot table talk to: the real engine, with every game action a bot submits recorded
// together with its result and the hand state the table was publishing when the call was made (C18: exactly one
// accepted action per request).
type recEngine struct {
	pt.TableEngine
	d *TD
}

func (e *recEngine) note(id, kind string, amt int64, fn func() error) error {
	key := int64(0)
	if t := e.TableEngine.GetTable(); t != nil && t.State != nil && t.State.GameState != nil {
		key = t.State.GameState.UpdatedAt
	}
	err := fn()
	if e.d.sc.Seed%3 == 0 {
		// the reply takes a moment to travel back: the bot's handler is still busy when the engine publishes the next state
		// (which must then wait for it, not be dropped)
		time.Sleep(2 * time.Millisecond)
	}
	a := mkArgs()
	a.ID, a.Kind, a.Amt, a.Note = id, kind, amt, fmt.Sprintf("%d", key)
	e.d.rec.Emit("botcall", a, errNameT(err), e.d.te, nil, nil, false)
	return err
}

func (e *recEngine) PlayerReady(id string) error {
	return e.note(id, "ready", 0, func() error { return e.TableEngine.PlayerReady(id) })
}
func (e *recEngine) PlayerPay(id string, c int64) error {
	return e.note(id, "pay", c, func() error { return e.TableEngine.PlayerPay(id, c) })
}
func (e *recEngine) PlayerPass(id string) error {
	return e.note(id, "pass", 0, func() error { return e.TableEngine.PlayerPass(id) })
}
func (e *recEngine) PlayerCheck(id string) error {
	return e.note(id, "check", 0, func() error { return e.TableEngine.PlayerCheck(id) })
}
func (e *recEngine) PlayerCall(id string) error {
	return e.note(id, "call", 0, func() error { return e.TableEngine.PlayerCall(id) })
}
func (e *recEngine) PlayerFold(id string) error {
	return e.note(id, "fold", 0, func() error { return e.TableEngine.PlayerFold(id) })
}
func (e *recEngine) PlayerAllin(id string) error {
	return e.note(id, "allin", 0, func() error { return e.TableEngine.PlayerAllin(id) })
}
func (e *recEngine) PlayerBet(id string, c int64) error {
	return e.note(id, "bet", c, func() error { return e.TableEngine.PlayerBet(id, c) })
}
func (e *recEngine) PlayerRaise(id string, c int64) error {
	return e.note(id, "raise", c, func() error { return e.TableEngine.PlayerRaise(id, c) })
}
