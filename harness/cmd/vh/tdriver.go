package main

import (
	"errors"
	"fmt"
	"math/rand"
	"os"
	"sort"
	"strings"
	"sync"
	"sync/atomic"
	"time"

	"github.com/weedbox/pokerface"
	pt "github.com/weedbox/pokertable"
	"github.com/weedbox/pokertable/actor"
	ogm "github.com/weedbox/pokertable/open_game_manager"
	sm "github.com/weedbox/pokertable/seat_manager"
)

// ---- scenario vocabulary -----------------------------------------------------

type JoinSpec struct {
	ID    string `json:"id"`
	Seat  int    `json:"seat"`
	Chips int64  `json:"chips"`
}

// Op is one external call on the engine.
type Op struct {
	Op    string     `json:"op"`
	ID    string     `json:"id,omitempty"`
	IDs   []string   `json:"ids,omitempty"`
	Seat  int        `json:"seat,omitempty"`
	Chips int64      `json:"chips,omitempty"`
	Kind  string     `json:"kind,omitempty"`
	Amt   int64      `json:"amt,omitempty"`
	Joins []JoinSpec `json:"joins,omitempty"`
	Blind []int64    `json:"blind,omitempty"` // level, ante, dealer, sb, bb
	Gc    int        `json:"gc,omitempty"`
	Who   string     `json:"who,omitempty"`  // symbolic caller for "act": cur, other, out, stranger (resolved at run time)
	Then  []Op       `json:"then,omitempty"` // "bgreserve": what the driver does while the background call is parked inside the engine lock
}

// Inj: ops to run when the hand reaches a phase ("prefinish","ready1","ready2","ante","blinds","turn<k>","settled")
// or while an engine goroutine is parked at a hook point ("g:<point>[#k]").
type Inj struct {
	At  string `json:"at"`
	Ops []Op   `json:"ops"`
}

type HandPlan struct {
	Strength    []int          `json:"strength,omitempty"`
	TieAll      bool           `json:"tieall,omitempty"`
	Policy      string         `json:"policy"`
	Inj         []Inj          `json:"inj,omitempty"`
	WithholdFin int            `json:"withholdfin,omitempty"` // number of settlement-finish signals withheld (gate then opens by timeout)
	WithholdAns string         `json:"withholdans,omitempty"` // "", "ready1", "ante", "blinds": withhold one answer for WithholdMs, then give it
	WithholdMs  int            `json:"withholdms,omitempty"`
	DupAnswers  bool           `json:"dupanswers,omitempty"` // repeat ready/pay answers
	ShuffleAns  bool           `json:"shuffleans,omitempty"` // answer in random order
	Script      []Op           `json:"script,omitempty"`     // scripted betting line (kind, amt) used before falling back to policy
	FailOrd     map[int]int    `json:"failord,omitempty"`    // backend ordinal -> failures before success
	FailKind    map[string]int `json:"failkind,omitempty"`
	MaxTurns    int            `json:"maxturns,omitempty"`
	ThinkMs     int            `json:"thinkms,omitempty"` // the mover of turn ThinkTurn waits this long before acting
	ThinkTurn   int            `json:"thinkturn,omitempty"`
}

type Step struct {
	Op   *Op       `json:"op,omitempty"`
	Hand *HandPlan `json:"hand,omitempty"`
}

type Scenario struct {
	Seed       int64      `json:"seed"`
	N          int        `json:"n"`
	Mode       string     `json:"mode"`
	Rule       string     `json:"rule"`
	MinPlayers int        `json:"minp"`
	ActionTime int        `json:"actiontime"`
	Blind      []int64    `json:"blind"`
	Initial    []JoinSpec `json:"initial,omitempty"` // CreateTable with players
	Steps      []Step     `json:"steps"`
	Tags       []string   `json:"tags,omitempty"`
	MinChip    int64      `json:"minchip,omitempty"`
	Via        string     `json:"via,omitempty"`    // "manager": every call goes through a pokertable.Manager next to bystander tables
	Actors     bool       `json:"actors,omitempty"` // attach observer actors to every table update (C20)
	Bots       bool       `json:"bots,omitempty"`   // every seated player is a real botRunner; the driver only sends settlement-finish signals (C18)
	Interval   int        `json:"interval,omitempty"`
	SlowAct    int        `json:"slowact,omitempty"` // the action listener takes this many milliseconds
}

// ---- driver -------------------------------------------------------------------------

type TD struct {
	te  pt.TableEngine
	rec *Recorder
	spy *SpyBackend
	rng *rand.Rand
	sc  *Scenario

	hmu       sync.Mutex
	counts    map[string]int
	gateOps   map[string][]Op // armed gates (point or point#k)
	parkedAt  string          // point at which an engine goroutine is parked
	release   chan struct{}
	servicing bool

	queued, handled int64

	// shadow of what the driver itself did (used only to decide what to wait for)
	ansKey          int64
	answered        map[int]bool
	overlaps        int
	after3betDone   bool
	curPlan         *HandPlan
	gone            bool
	companion       string
	stopCompanionFn func()
	early           map[string]map[int]bool // collection event -> game indexes whose answer was accepted before the request was published
	gateParts       map[string]bool
	gateSig         map[string]bool
	gateDone        bool
	gateFiring      bool
	gateEpoch       int
	stuck           bool
	autoFailed      bool
	dead            bool
	injDone         map[string]bool
	mgr             pt.Manager
	obsAdapters     []interface{ UpdateTableState(*pt.Table) error }
	actMu           sync.Mutex
	botMu           sync.Mutex
	bots            map[string]*actorHandle
	deliveryPre     *PState
	bystanders      []string
}

func errNameT(err error) string {
	if err == nil {
		return "ok"
	}
	for _, e := range []struct {
		e error
		n string
	}{
		{pt.ErrTableNoEmptySeats, "ErrTableNoEmptySeats"}, {pt.ErrTableInvalidCreateSetting, "ErrTableInvalidCreateSetting"},
		{pt.ErrTablePlayerNotFound, "ErrTablePlayerNotFound"}, {pt.ErrTablePlayerInvalidGameAction, "ErrTablePlayerInvalidGameAction"},
		{pt.ErrTablePlayerInvalidAction, "ErrTablePlayerInvalidAction"}, {pt.ErrTablePlayerSeatUnavailable, "ErrTablePlayerSeatUnavailable"},
		{pt.ErrTableOpenGameFailed, "ErrTableOpenGameFailed"}, {pt.ErrTableOpenGameFailedInBlindBreakingLevel, "ErrTableOpenGameFailedInBlindBreakingLevel"},
		{pt.ErrGamePlayerNotFound, "ErrGamePlayerNotFound"}, {pt.ErrGameInvalidAction, "ErrGameInvalidAction"},
		{pt.ErrGameUnknownEvent, "ErrGameUnknownEvent"}, {pt.ErrGameUnknownEventHandler, "ErrGameUnknownEventHandler"},
		{pt.ErrManagerTableNotFound, "ErrManagerTableNotFound"}, {ErrInjected, "ErrInjected"},
		{ogm.ErrParticipantNotFound, "ErrParticipantNotFound"},
		{sm.ErrNotEnoughSeats, "ErrNotEnoughSeats"}, {sm.ErrPlayerNotFound, "ErrPlayerNotFound"}, {sm.ErrDuplicatePlayers, "ErrDuplicatePlayers"},
		{sm.ErrDuplicateSeats, "ErrDuplicateSeats"}, {sm.ErrSeatAlreadyIsTaken, "ErrSeatAlreadyIsTaken"}, {sm.ErrUnavailableSeat, "ErrUnavailableSeat"},
		{sm.ErrUnableToInitPositions, "ErrUnableToInitPositions"}, {sm.ErrUnableToRotatePositions, "ErrUnableToRotatePositions"},
	} {
		if errors.Is(err, e.e) {
			return e.n
		}
	}
	return "err:" + strings.ReplaceAll(err.Error(), "\"", "'")
}

// per-hand counters of hand states queued for / handled by the game updater goroutine
var gameCounters sync.Map // game object -> *[2]int64

func gameCounter(g interface{}) *[2]int64 {
	if v, ok := gameCounters.Load(g); ok {
		return v.(*[2]int64)
	}
	v, _ := gameCounters.LoadOrStore(g, &[2]int64{})
	return v.(*[2]int64)
}

func init() {
	pt.VerifSetGameHook(func(g interface{}, point string) {
		c := gameCounter(g)
		switch point {
		case "game.queue":
			atomic.AddInt64(&c[0], 1)
		case "game.handled":
			atomic.AddInt64(&c[1], 1)
		}
		// a scenario may park the goroutine that has just produced a collection request (g.gs already is the new state,
		// the updater has not been handed it yet): point name "game.queue:<event>"
		if point == "game.queue" {
			if d, _ := curTD.Load().(*TD); d != nil && !d.isDead() && d.hasGameGate() {
				if gm := d.te.GetGame(); gm != nil && interface{}(gm) == g {
					if gs := gm.GetGameState(); gs != nil {
						d.hook("game.queue:" + gs.Status.CurrentEvent)
					}
				}
			}
		}
	})
}

var curTD atomic.Value

func (d *TD) hasGameGate() bool {
	d.hmu.Lock()
	defer d.hmu.Unlock()
	for k := range d.gateOps {
		if strings.HasPrefix(k, "game.queue:") {
			return true
		}
	}
	return false
}

var recordedHooks = map[string]bool{"continue.reset": true, "continue.fire": true, "continue.setup": true, "gate.fire": true,
	"gate.done": true, "open.enter": true, "open.swap": true, "start.exit": true, "open.cloned": true, "open.retry": true}

func NewTD(rec *Recorder, sc *Scenario) *TD {
	d := &TD{rec: rec, sc: sc, rng: rand.New(rand.NewSource(sc.Seed)), counts: map[string]int{}, gateOps: map[string][]Op{},
		answered: map[int]bool{}, gateParts: map[string]bool{}, gateSig: map[string]bool{}, gateDone: true}
	d.spy = NewSpy()
	curTD.Store(d)
	d.spy.OnCall = func(kind string, ord int, ok bool, in, out string, gs *pokerface.GameState, o *pokerface.GameOptions, amt int64) {
		if d.isDead() {
			return
		}
		a := mkArgs()
		a.Kind, a.Gc, a.Note, a.Amt = kind, ord, in+">"+out, amt
		if o != nil {
			a.Blind = []int64{o.Ante, o.Blind.Dealer, o.Blind.SB, o.Blind.BB}
			for i, p := range o.Players {
				row := []interface{}{i, p.Bankroll}
				for _, q := range p.Positions {
					row = append(row, q)
				}
				a.Joins = append(a.Joins, row)
			}
		}
		res := "ok"
		if !ok && strings.HasPrefix(out, "err:") && (kind == "pay" || kind == "fold" || kind == "check" || kind == "call" || kind == "allin" || kind == "bet" || kind == "raise" || kind == "pass") {
			res = "refused" // the rules themselves refuse the move (not an injected failure): nothing was applied
		} else if !ok {
			res = "fail"
			if kind == "readyall" || kind == "ante" || kind == "blinds" || kind == "next" || kind == "create" {
				d.hmu.Lock()
				d.autoFailed = true
				d.hmu.Unlock()
			}
		}
		d.rec.Emit("spy", a, res, d.te, nil, nil, false)
	}
	interval := sc.Interval
	if sc.Via == "manager" {
		d.mgr = pt.NewManager()
		d.te = &mgrEngine{m: d.mgr, id: fmt.Sprintf("t%d", sc.Seed), cbs: pt.NewTableEngineCallbacks()}
		rec.SetEngine(d.te)
		for b := 0; b < 2; b++ { // bystander tables with players of their own
			bt, _ := d.mgr.CreateTable(nil, nil, pt.TableSetting{TableID: fmt.Sprintf("by%d-%d", sc.Seed, b), Meta: pt.TableMeta{CompetitionID: "c", Rule: "default", Mode: "ct",
				MaxDuration: 1000000, TableMaxSeatCount: 4, TableMinPlayerCount: 2, MinChipUnit: 1, ActionTime: 10}, Blind: pt.TableBlindState{Level: 1, SB: 1, BB: 2},
				JoinPlayers: []pt.JoinPlayer{{PlayerID: "p1", RedeemChips: 10, Seat: 0}, {PlayerID: "p2", RedeemChips: 11, Seat: 2}}})
			if bt != nil {
				d.bystanders = append(d.bystanders, bt.ID)
				// seated in at once: a reserved player would be sat in by the table's own 17 s timer, and the bystander
				// tables are meant to be at rest while the table under test is driven
				d.mgr.PlayerJoin(bt.ID, "p1")
				d.mgr.PlayerJoin(bt.ID, "p2")
			}
		}
	} else {
		d.te = pt.NewTableEngine(&pt.TableEngineOptions{GameContinueInterval: interval, OpenGameTimeout: 2}, pt.WithGameBackend(d.spy))
		rec.SetEngine(d.te)
	}
	te := d.te
	te.OnTableUpdated(func(t *pt.Table) {
		if d.isDead() {
			return
		}
		d.rec.Emit("cb:updated", mkArgs(), "", te, t, nil, false)
		if t != nil && t.State != nil && t.State.Status == pt.TableStateStatus_TableGameOpened {
			// injections "cb:opened": calls the application makes from its own listener of the opened event, i.e. between the
			// publication of the opened table and the creation of the hand (only calls that take no engine lock)
			d.hmu.Lock()
			plan := d.curPlan
			d.hmu.Unlock()
			if plan != nil {
				d.runInj(plan, "cb:opened")
			}
		}
		if sc.Actors {
			d.deliverToActors(t)
		}
		if sc.Bots {
			d.deliverToBots(t)
		}
	})
	te.OnTableStateUpdated(func(ev string, t *pt.Table) {
		if ev == pt.TableStateEvent_GameUpdated || d.isDead() {
			return
		}
		a := mkArgs()
		a.Kind = ev
		d.rec.Emit("cb:state", a, "", te, t, nil, false)
	})
	te.OnTableErrorUpdated(func(t *pt.Table, err error) {
		if d.isDead() {
			return
		}
		d.rec.Emit("cb:error", mkArgs(), errNameT(err), te, t, nil, false)
	})
	te.OnGamePlayerActionUpdated(func(ga pt.TablePlayerGameAction) {
		if d.isDead() {
			return
		}
		a := mkArgs()
		a.ID, a.Seat, a.Kind, a.Amt, a.Round, a.Gc = ga.PlayerID, ga.Seat, ga.Action, ga.Chips, ga.Round, ga.GameCount
		a.Gid = d.rec.gidLocked(ga.GameID)
		d.rec.Emit("cb:action", a, "", te, nil, nil, false)
		if d.sc.SlowAct > 0 {
			// a slow application listener: the call that made the action is still inside the engine while the hand
			// updater is free to run on
			time.Sleep(time.Duration(d.sc.SlowAct) * time.Millisecond)
		}
	})
	te.OnAutoGameOpenEnd(func(c, tid string) {
		if !d.isDead() {
			d.rec.Emit("cb:autoend", mkArgs(), "", te, nil, nil, false)
		}
	})
	te.OnReadyOpenFirstTableGame(func(c, tid string, gc int, ps []*pt.TablePlayerState) {
		if d.isDead() {
			return
		}
		parts := map[string]int{}
		ids := []string{}
		for i, p := range ps {
			parts[p.PlayerID] = i
			ids = append(ids, p.PlayerID)
		}
		a := mkArgs()
		a.Gc, a.IDs = gc, ids
		d.rec.Emit("cb:readyfirst", a, "", te, nil, nil, false)
		d.noteSetup(parts)
		te.SetUpTableGame(gc, parts)
	})
	if sc.Via != "manager" {
		pt.VerifSetHook(te, d.hook)
	}
	return d
}

// deliverToActors hands the snapshot to a non-system observer and a system observer, each behind its own
// TableEngineAdapter (C20): what each saw is recorded, and the engine's own table is projected before and after.
func (d *TD) deliverToActors(t *pt.Table) {
	d.actMu.Lock() // deliveries from different engine goroutines are serialised, each judged against its own snapshot
	defer d.actMu.Unlock()
	if d.obsAdapters == nil {
		mk := func(system bool, name string) *actor.Actor {
			a := actor.NewActor()
			ad := actor.NewTableEngineAdapter(realEngine(d.te), t)
			a.SetAdapter(ad)
			ob := actor.NewObserverRunner()
			ob.EnabledSystemMode(system)
			ob.OnTableStateUpdated(func(v *pt.Table) {
				args := mkArgs()
				args.Kind = name
				d.rec.Emit("actorview", args, "", nil, v, d.deliveryPre, false)
			})
			a.SetRunner(ob)
			d.obsAdapters = append(d.obsAdapters, ad)
			return &a
		}
		// order of attachment varies with the scenario
		if d.sc.Seed%2 == 0 {
			mk(false, "observer")
			mk(true, "system")
		} else {
			mk(true, "system")
			mk(false, "observer")
		}
		mk(false, "observer2")
		// an actor whose runner edits the view it was given: nobody else may see the edits
		ta := actor.NewActor()
		tad := actor.NewTableEngineAdapter(realEngine(d.te), t)
		ta.SetAdapter(tad)
		ta.SetRunner(&tamperRunner{})
		d.obsAdapters = append(d.obsAdapters[:1], append([]interface{ UpdateTableState(*pt.Table) error }{tad}, d.obsAdapters[1:]...)...)
	}
	pre := d.rec.Project(nil, t)
	d.deliveryPre = &pre
	before := tableDigest(t)
	for _, ad := range d.obsAdapters {
		ad.UpdateTableState(t)
	}
	after := tableDigest(t)
	a := mkArgs()
	a.Kind = "delivered"
	a.Note = t.Meta.CompetitionID
	d.rec.Emit("actorsdone", a, "", nil, t, &pre, before == after)
	if d.sc.Seed%3 == 0 && d.overlaps < 3 && t.State != nil && t.State.GameState != nil && t.State.Status == pt.TableStateStatus_TableGamePlaying {
		d.overlaps++
		d.overlapDelivery(t, &pre)
	}
	d.deliveryPre = nil
}

// overlapDelivery: while a non-system observer's handler is still busy with one in-play snapshot, another goroutine
// delivers the next update to the same actor.  The busy handler looks at its view again before it returns: it must still
// be the filtered copy it was given (C20: every delivery is an independent copy).
func (d *TD) overlapDelivery(t *pt.Table, pre *PState) {
	entered := make(chan struct{})
	first := true
	var mu sync.Mutex
	a := actor.NewActor()
	ad := actor.NewTableEngineAdapter(realEngine(d.te), t)
	a.SetAdapter(ad)
	ob := actor.NewObserverRunner()
	ob.OnTableStateUpdated(func(v *pt.Table) {
		args := mkArgs()
		args.Kind = "observer"
		d.rec.Emit("actorview", args, "", nil, v, pre, false)
		mu.Lock()
		f := first
		first = false
		mu.Unlock()
		if f {
			close(entered)
			time.Sleep(12 * time.Millisecond)
			args.Note = "looked again while another delivery was on its way"
			d.rec.Emit("actorview", args, "", nil, v, pre, false)
		}
	})
	a.SetRunner(ob)
	done := make(chan struct{}, 3)
	go func() { ad.UpdateTableState(t); done <- struct{}{} }()
	select {
	case <-entered:
	case <-time.After(time.Second):
		return
	}
	// two more updates queue up behind the busy handler (one after the other, so the adapter has seen both before the
	// first of them is handled): each must reach the observer as its own filtered copy
	go func() { ad.UpdateTableState(t); done <- struct{}{} }()
	time.Sleep(2 * time.Millisecond)
	go func() { ad.UpdateTableState(t); done <- struct{}{} }()
	for i := 0; i < 3; i++ {
		select {
		case <-done:
		case <-time.After(2 * time.Second):
			return
		}
	}
}

// deliverToBots: one real botRunner per seated player behind a real TableEngineAdapter, as in actor/actor_test.go
func (d *TD) deliverToBots(t *pt.Table) {
	d.botMu.Lock()
	if d.bots == nil {
		d.bots = map[string]*actorHandle{}
	}
	var todo []*actorHandle
	for _, p := range t.State.PlayerStates {
		h, ok := d.bots[p.PlayerID]
		if !ok {
			a := actor.NewActor()
			ad := actor.NewTableEngineAdapter(&recEngine{TableEngine: realEngine(d.te), d: d}, t)
			a.SetAdapter(ad)
			bot := actor.NewBotRunner(p.PlayerID)
			id := p.PlayerID
			bot.OnTableAutoJoinActionRequested(func(c, tid, pid string) { go d.te.PlayerJoin(id) })
			a.SetRunner(bot)
			h = &actorHandle{ad: ad}
			d.bots[p.PlayerID] = h
		}
		todo = append(todo, h)
	}
	d.botMu.Unlock()
	for _, h := range todo {
		h.ad.UpdateTableState(t)
	}
}

type actorHandle struct {
	ad interface{ UpdateTableState(*pt.Table) error }
}

// playHandBots: the bots play; the driver signals settlement-finish for everybody and waits for the hand to be settled.
func (d *TD) playHandBots() string {
	gc0 := d.table().State.GameCount
	d.hmu.Lock()
	parts := []string{}
	for id := range d.gateParts {
		parts = append(parts, id)
	}
	d.hmu.Unlock()
	sort.Strings(parts)
	for _, id := range parts {
		d.exec(Op{Op: "finish", ID: id})
	}
	dl := time.Now().Add(20 * time.Second)
	opened := false
	for time.Now().Before(dl) {
		st := d.table().State
		if st.GameCount > gc0 {
			opened = true
			if st.Status == pt.TableStateStatus_TableGameStandby || st.Status == pt.TableStateStatus_TablePausing {
				d.settle()
				d.rec.Emit("q", mkArgs(), "", d.te, nil, nil, false)
				return "played"
			}
		} else if time.Since(dl.Add(-20*time.Second)) > 4*time.Second {
			break
		}
		time.Sleep(500 * time.Microsecond)
	}
	a := mkArgs()
	if opened {
		a.Note = "a hand played by bots only did not reach settlement"
		d.rec.Emit("botstall", a, "", d.te, nil, nil, false)
		return "stuck"
	}
	a.Note = "no hand opened after the gate"
	d.rec.Emit("noopen", a, "", d.te, nil, nil, false)
	return "noopen"
}

// tamperRunner scribbles over the table it is handed (its own copy, if the adapter does its job)
type tamperRunner struct{}

func (tr *tamperRunner) SetActor(a actor.Actor) {}
func (tr *tamperRunner) UpdateTableState(t *pt.Table) error {
	t.Meta.CompetitionID = "tampered"
	if t.State != nil {
		for _, p := range t.State.PlayerStates {
			p.Bankroll = -777
		}
		if gs := t.State.GameState; gs != nil {
			gs.Meta.Deck = nil
			for _, p := range gs.Players {
				p.HoleCards = nil
			}
		}
	}
	return nil
}

func (d *TD) bystanderDigest() string {
	s := ""
	for _, id := range d.bystanders {
		if e, err := d.mgr.GetTableEngine(id); err == nil {
			func() {
				defer func() {
					if r := recover(); r != nil {
						s += "broken"
					}
				}()
				if t := e.GetTable(); t == nil {
					s += "no-table"
				} else {
					s += tableDigest(t)
				}
			}()
		} else {
			s += "gone"
		}
	}
	return s
}

func (r *Recorder) gidLocked(id string) int {
	r.mu.Lock()
	defer r.mu.Unlock()
	return r.gid(id)
}

func (d *TD) noteSetup(parts map[string]int) {
	d.hmu.Lock()
	d.gateParts = map[string]bool{}
	for id := range parts {
		d.gateParts[id] = true
	}
	d.gateSig = map[string]bool{}
	d.gateDone = false
	d.gateEpoch++
	d.hmu.Unlock()
}

func (d *TD) isDead() bool { d.hmu.Lock(); defer d.hmu.Unlock(); return d.dead }

func (d *TD) hook(point string) {
	if d.isDead() {
		return
	}
	d.hmu.Lock()
	d.counts[point]++
	k := d.counts[point]
	if point == "gate.done" {
		d.gateDone = true
		d.gateFiring = false
	}
	if point == "gate.fire" {
		d.gateFiring = true
	}
	ops, armed := d.gateOps[point]
	key := point
	if !armed {
		key = fmt.Sprintf("%s#%d", point, k)
		ops, armed = d.gateOps[key]
	}
	if !armed && point == "ugs.enter" && d.closingWindow() {
		// the hand wrapper already holds the closed hand while the table is still publishing the last closed round
		key = "ugs.enter@closing"
		ops, armed = d.gateOps[key]
	}
	var ch chan struct{}
	if armed {
		delete(d.gateOps, key)
		ch = make(chan struct{})
		d.release = ch
		d.parkedAt = key
		d.gateOps["@parked"] = ops
	}
	d.hmu.Unlock()
	if point == "continue.setup" {
		st := pt.VerifOpenGameManager(realEngine(d.te)).GetState()
		parts := map[string]int{}
		for id, p := range st.Participants {
			parts[id] = p.Index
		}
		d.noteSetup(parts)
	}
	if recordedHooks[point] {
		a := mkArgs()
		a.Kind = point
		d.rec.Emit("hook", a, "", d.te, nil, nil, false)
	}
	if ch != nil {
		select {
		case <-ch:
		case <-time.After(20 * time.Second):
		}
	}
}

// ---- quiescence -------------------------------------------------------------------------

func (d *TD) handPending() string {
	t := d.te.GetTable()
	if t == nil || t.State == nil {
		return ""
	}
	gs := t.State.GameState
	if gs == nil || t.State.Status != pt.TableStateStatus_TableGamePlaying {
		return ""
	}
	ev := gs.Status.CurrentEvent
	var need string
	switch ev {
	case "ReadyRequested":
		need = "ready"
	case "AnteRequested", "BlindsRequested":
		need = "pay"
	default:
		return ""
	}
	d.hmu.Lock()
	defer d.hmu.Unlock()
	if d.ansKey != gs.UpdatedAt {
		return ""
	}
	asked := 0
	for i, p := range gs.Players {
		has := false
		for _, a := range p.AllowedActions {
			if a == need {
				has = true
			}
		}
		if has {
			asked++
			if !d.answered[i] {
				return ""
			}
		}
	}
	if asked == 0 {
		return ""
	}
	return "hand-answers-complete:" + ev
}

func (d *TD) gatePending() string {
	d.hmu.Lock()
	defer d.hmu.Unlock()
	if d.gateFiring {
		return "gate-open-in-progress"
	}
	if d.gateDone || len(d.gateParts) == 0 {
		return ""
	}
	for id := range d.gateParts {
		if !d.gateSig[id] {
			return ""
		}
	}
	return "gate-all-signalled"
}

func (d *TD) pending() string {
	if gm := d.te.GetGame(); gm != nil {
		c := gameCounter(gm)
		if q, h := atomic.LoadInt64(&c[0]), atomic.LoadInt64(&c[1]); q != h {
			return fmt.Sprintf("game-queue %d/%d", h, q)
		}
	}
	if s := d.handPending(); s != "" {
		return s
	}
	return d.gatePending()
}

// settle waits until the engine has nothing left to do by itself. Returns "" or the reason it gave up.
func (d *TD) settle() string {
	if d.isServicing() {
		d.settleLite()
		return ""
	}
	deadline := time.Now().Add(12 * time.Second)
	start := time.Now()
	stableSince := time.Time{}
	lastEv := int64(-1)
	for {
		if p := d.takeParked(); p != "" {
			d.serviceGate(p)
			stableSince = time.Time{}
			start, deadline = time.Now(), time.Now().Add(12*time.Second)
			continue
		}
		d.hmu.Lock()
		af := d.autoFailed
		d.hmu.Unlock()
		if af {
			// a step the engine performs by itself failed in the backend: nothing retries it, the hand stays where it is
			if d.stuck {
				return "auto-step-failed"
			}
			time.Sleep(20 * time.Millisecond) // the error event is emitted from its own goroutine
			d.stuck = true
			a := mkArgs()
			a.Note, a.Kind = "auto-step-failed", "fault"
			d.rec.Emit("stuck", a, "", d.te, nil, nil, false)
			return "auto-step-failed"
		}
		reason := d.pending()
		ev := d.rec.Events()
		if reason == "" && ev == lastEv {
			if stableSince.IsZero() {
				stableSince = time.Now()
			} else if time.Since(stableSince) > 400*time.Microsecond {
				return ""
			}
		} else {
			stableSince = time.Time{}
		}
		lastEv = ev
		if time.Now().After(deadline) || (reason == "gate-open-in-progress" && time.Since(start) > 1500*time.Millisecond && !d.retryArmed()) {
			d.stuck = true
			a := mkArgs()
			a.Note = reason
			a.Kind = "gate"
			if strings.HasPrefix(reason, "hand-") || strings.HasPrefix(reason, "game-queue") {
				a.Kind = "hand"
			}
			d.rec.Emit("stuck", a, "", d.te, nil, nil, false)
			return reason
		}
		time.Sleep(100 * time.Microsecond)
	}
}

func (d *TD) closingWindow() bool {
	gm := d.te.GetGame()
	t := d.te.GetTable()
	if gm == nil || t == nil || t.State == nil {
		return false
	}
	gs := gm.GetGameState()
	pub := t.State.GameState
	return gs != nil && gs.Status.CurrentEvent == "GameClosed" && pub != nil && pub.Status.CurrentEvent != "GameClosed"
}

// retryArmed: the scenario waits for tableGameOpen's retry loop (3 s sleeps with the engine lock held)
func (d *TD) retryArmed() bool {
	d.hmu.Lock()
	defer d.hmu.Unlock()
	for k := range d.gateOps {
		if strings.HasPrefix(k, "open.retry") {
			return true
		}
	}
	return false
}

func (d *TD) settleLite() {
	last := d.rec.Events()
	quiet := 0
	for i := 0; i < 400 && quiet < 8; i++ {
		time.Sleep(150 * time.Microsecond)
		if e := d.rec.Events(); e == last {
			quiet++
		} else {
			quiet, last = 0, e
		}
	}
}

func (d *TD) isServicing() bool { d.hmu.Lock(); defer d.hmu.Unlock(); return d.servicing }

func (d *TD) takeParked() string {
	d.hmu.Lock()
	defer d.hmu.Unlock()
	if d.parkedAt != "" && !d.servicing {
		return d.parkedAt
	}
	return ""
}

func (d *TD) serviceGate(point string) {
	d.hmu.Lock()
	ops := d.gateOps["@parked"]
	delete(d.gateOps, "@parked")
	d.servicing = true
	d.hmu.Unlock()
	a := mkArgs()
	a.Kind = point
	d.rec.Emit("parked", a, "", d.te, nil, nil, false)
	for _, o := range ops {
		d.exec(o)
	}
	d.hmu.Lock()
	d.servicing = false
	d.parkedAt = ""
	ch := d.release
	d.release = nil
	d.hmu.Unlock()
	d.rec.Emit("released", a, "", d.te, nil, nil, false)
	if ch != nil {
		close(ch)
	}
}

func (d *TD) arm(point string, ops []Op) {
	d.hmu.Lock()
	d.gateOps[point] = ops
	d.hmu.Unlock()
}

// ---- calls -----------------------------------------------------------------------------

func (d *TD) call(name string, ap *Args, fn func() error) string {
	e0 := d.rec.Events()
	pre := d.rec.Project(d.te, nil)
	dg0 := tableDigest(d.te.GetTable())
	by0 := ""
	if d.mgr != nil {
		by0 = d.bystanderDigest()
	}
	t0 := time.Now()
	res := func() (res string) {
		defer func() {
			if r := recover(); r != nil {
				res = "panic"
				fmt.Fprintf(os.Stderr, "panic in %s: %v\n", name, r)
			}
		}()
		return errNameT(fn())
	}()
	// a call that had to wait for the engine lock (tableGameOpen sleeps with it between its retries) ran against a later
	// state than the one projected before it: the line then carries no pre-state
	prep := &pre
	if time.Since(t0) > 400*time.Millisecond { // (the retry loop sleeps 3 s at a time; a slow listener of the scenario stays far below)
		prep = nil
		if ap.Note == "" {
			ap.Note = "waited"
		}
	}
	dg1 := tableDigest(d.te.GetTable())
	if d.mgr != nil {
		d.rec.mu.Lock()
		if d.bystanderDigest() == by0 {
			d.rec.by = "same"
		} else {
			d.rec.by = "changed"
		}
		d.rec.mu.Unlock()
	}
	if res == "ErrManagerTableNotFound" {
		d.gone = true // the table has left the manager (closed / released): nothing more can be driven through it
	}
	d.rec.Emit("ret:"+name, *ap, res, d.te, nil, prep, dg0 == dg1)
	d.settle()
	if d.rec.Events() != e0+1 {
		d.rec.Emit("q", mkArgs(), "", d.te, nil, nil, false)
	}
	return res
}

func (d *TD) table() *pt.Table { return d.te.GetTable() }

func (d *TD) idOfGameIdx(gi int) string {
	t := d.table()
	if gi < 0 || gi >= len(t.State.GamePlayerIndexes) {
		return ""
	}
	pi := t.State.GamePlayerIndexes[gi]
	if pi < 0 || pi >= len(t.State.PlayerStates) {
		return ""
	}
	return t.State.PlayerStates[pi].PlayerID
}

func (d *TD) gameIdxOf(id string) int { return d.table().FindGamePlayerIdx(id) }

func (d *TD) exec(o Op) string {
	o, ok := d.resolveOp(o)
	if !ok {
		return "skipped"
	}
	a := mkArgs()
	te := d.te
	switch o.Op {
	case "reserve":
		a.ID, a.Seat, a.Chips = o.ID, o.Seat, o.Chips
		return d.call("PlayerReserve", &a, func() error {
			return te.PlayerReserve(pt.JoinPlayer{PlayerID: o.ID, RedeemChips: o.Chips, Seat: o.Seat})
		})
	case "join":
		a.ID = o.ID
		return d.call("PlayerJoin", &a, func() error { return te.PlayerJoin(o.ID) })
	case "redeem":
		a.ID, a.Chips = o.ID, o.Chips
		return d.call("PlayerRedeemChips", &a, func() error {
			return te.PlayerRedeemChips(pt.JoinPlayer{PlayerID: o.ID, RedeemChips: o.Chips, Seat: -1})
		})
	case "leaveout":
		// a departure the schedule wants between hands: a participant of a running hand is left alone (recorded finding
		// KF-midhand-leave)
		st := d.table().State
		for _, id := range o.IDs {
			for _, p := range st.PlayerStates {
				if p.PlayerID == id && p.IsParticipated && len(st.GamePlayerIndexes) > 0 {
					return "skipped"
				}
			}
		}
		o.Op = "leave"
		return d.exec(o)
	case "leave":
		a.IDs = append([]string{}, o.IDs...)
		d.rec.Emit("call:PlayersLeave", a, "", d.te, nil, nil, false)
		return d.call("PlayersLeave", &a, func() error { return te.PlayersLeave(o.IDs) })
	case "update":
		a.IDs = append([]string{}, o.IDs...)
		jp := []pt.JoinPlayer{}
		for _, j := range o.Joins {
			jp = append(jp, pt.JoinPlayer{PlayerID: j.ID, RedeemChips: j.Chips, Seat: j.Seat})
			a.Joins = append(a.Joins, []interface{}{j.ID, j.Seat, j.Chips})
		}
		d.rec.Emit("call:UpdateTablePlayers", a, "", d.te, nil, nil, false)
		return d.call("UpdateTablePlayers", &a, func() error { _, err := te.UpdateTablePlayers(jp, o.IDs); return err })
	case "finish":
		a.ID = o.ID
		res := d.call("PlayerSettlementFinish", &a, func() error {
			err := te.PlayerSettlementFinish(o.ID)
			if err == nil {
				d.hmu.Lock()
				d.gateSig[o.ID] = true
				d.hmu.Unlock()
			}
			return err
		})
		return res
	case "start":
		return d.call("StartTableGame", &a, func() error { return te.StartTableGame() })
	case "setup":
		a.Gc, a.IDs = o.Gc, append([]string{}, o.IDs...)
		parts := map[string]int{}
		for i, id := range o.IDs {
			parts[id] = i
		}
		return d.call("SetUpTableGame", &a, func() error {
			d.noteSetup(parts)
			te.SetUpTableGame(o.Gc, parts)
			if m, ok := te.(*mgrEngine); ok {
				return m.takeVoidErr()
			}
			return nil
		})
	case "blind":
		a.Blind = append([]int64{}, o.Blind...)
		return d.call("UpdateBlind", &a, func() error {
			te.UpdateBlind(int(o.Blind[0]), o.Blind[1], o.Blind[2], o.Blind[3], o.Blind[4])
			if m, ok := te.(*mgrEngine); ok {
				return m.takeVoidErr() // (a released table is gone from the manager: the call is refused)
			}
			return nil
		})
	case "pause":
		d.rec.Emit("call:PauseTable", a, "", d.te, nil, nil, false)
		return d.call("PauseTable", &a, func() error { return te.PauseTable() })
	case "close":
		d.rec.Emit("call:CloseTable", a, "", d.te, nil, nil, false)
		return d.call("CloseTable", &a, func() error { return te.CloseTable() })
	case "release":
		d.rec.Emit("call:ReleaseTable", a, "", d.te, nil, nil, false)
		return d.call("ReleaseTable", &a, func() error { return te.ReleaseTable() })
	case "bgreserve":
		// a reservation made from another goroutine is parked inside the engine lock (hook members.add.mid); the driver
		// meanwhile does o.Then (e.g. lets the gate fire, which then waits for the lock, and closes the table)
		d.arm("members.add.mid", o.Then)
		a.ID, a.Seat, a.Chips, a.Note = o.ID, o.Seat, o.Chips, "background"
		pre := d.rec.Project(d.te, nil)
		go func() {
			err := te.PlayerReserve(pt.JoinPlayer{PlayerID: o.ID, RedeemChips: o.Chips, Seat: o.Seat})
			d.rec.Emit("ret:PlayerReserve", a, errNameT(err), d.te, nil, &pre, false)
		}()
		for i := 0; i < 400; i++ {
			if d.takeParked() != "" {
				break
			}
			time.Sleep(500 * time.Microsecond)
		}
		d.settle()
		d.rec.Emit("q", mkArgs(), "", d.te, nil, nil, false)
		return "ok"
	case "finishall":
		d.hmu.Lock()
		ids := []string{}
		for id := range d.gateParts {
			ids = append(ids, id)
		}
		d.hmu.Unlock()
		sort.Strings(ids)
		r := "ok"
		for _, id := range ids {
			r = d.exec(Op{Op: "finish", ID: id})
		}
		return r
	case "extend":
		a.ID, a.Amt = o.ID, o.Amt
		return d.call("PlayerExtendActionDeadline", &a, func() error {
			v, err := te.PlayerExtendActionDeadline(o.ID, int(o.Amt))
			a.Chips = v
			return err
		})
	case "act":
		id := o.ID
		if o.Who != "" {
			id = d.resolveWho(o.Who)
		}
		if o.Kind == "illegal" {
			// a wager kind that is NOT among the mover's allowed actions right now (nothing to try if he may do everything)
			gs := d.table().State.GameState
			if gs == nil || gs.Status.CurrentEvent != "RoundStarted" || gs.Status.CurrentPlayer < 0 || gs.Status.CurrentPlayer >= len(gs.Players) {
				return "skipped"
			}
			al := gs.Players[gs.Status.CurrentPlayer].AllowedActions
			o.Kind = ""
			for _, k := range []string{"call", "check", "bet", "raise"} {
				if !has(al, k) {
					o.Kind = k
					break
				}
			}
			if o.Kind == "" {
				return "skipped"
			}
			if o.Amt == 0 {
				o.Amt = 1
			}
		}
		return d.act(id, o.Kind, o.Amt, o.Who)
	case "sleep":
		time.Sleep(time.Duration(o.Amt) * time.Millisecond)
		d.settle()
		d.rec.Emit("q", mkArgs(), "", d.te, nil, nil, false)
		return "ok"
	}
	return "unknown-op"
}

func (d *TD) resolveWho(who string) string {
	t := d.table()
	gs := t.State.GameState
	switch who {
	case "cur":
		if gs != nil {
			return d.idOfGameIdx(gs.Status.CurrentPlayer)
		}
	case "other":
		if gs != nil && len(t.State.GamePlayerIndexes) > 1 {
			k := d.rng.Intn(len(t.State.GamePlayerIndexes))
			if k == gs.Status.CurrentPlayer {
				k = (k + 1) % len(t.State.GamePlayerIndexes)
			}
			return d.idOfGameIdx(k)
		}
	case "bb", "sb", "dealer":
		if gs != nil {
			for _, p := range gs.Players {
				if has(p.Positions, who) {
					return d.idOfGameIdx(p.Idx)
				}
			}
		}
	case "out":
		for _, p := range t.State.PlayerStates {
			if !p.IsParticipated {
				return p.PlayerID
			}
		}
	}
	if who == "stranger" || true {
		return "zz-stranger"
	}
	return ""
}

// act submits one game action through the public API and records who the harness called as.
func (d *TD) act(id, kind string, amt int64, who string) string {
	a := mkArgs()
	a.ID, a.Kind, a.Amt, a.Note = id, kind, amt, who
	te := d.te
	gi := d.gameIdxOf(id)
	var key int64
	if gs := d.table().State.GameState; gs != nil {
		key = gs.UpdatedAt
	}
	fn := map[string]func() error{
		"ready": func() error { return te.PlayerReady(id) },
		"pay":   func() error { return te.PlayerPay(id, amt) },
		"fold":  func() error { return te.PlayerFold(id) },
		"check": func() error { return te.PlayerCheck(id) },
		"call":  func() error { return te.PlayerCall(id) },
		"allin": func() error { return te.PlayerAllin(id) },
		"bet":   func() error { return te.PlayerBet(id, amt) },
		"raise": func() error { return te.PlayerRaise(id, amt) },
		"pass":  func() error { return te.PlayerPass(id) },
	}[kind]
	if fn == nil {
		return "unknown-kind"
	}
	// an answer made by the driver WHILE it services an engine goroutine parked at game.queue:<event> (decided before the
	// call: the engine may park there as a consequence of this very answer)
	d.hmu.Lock()
	earlyFor := ""
	if d.servicing && strings.HasPrefix(d.parkedAt, "game.queue:") {
		earlyFor = strings.SplitN(strings.TrimPrefix(d.parkedAt, "game.queue:"), "#", 2)[0]
	}
	d.hmu.Unlock()
	return d.call("Player"+strings.Title(kind), &a, func() error {
		err := fn()
		if err == nil && (kind == "ready" || kind == "pay") && gi >= 0 {
			d.hmu.Lock()
			if earlyFor != "" {
				ev := earlyFor
				if d.early == nil {
					d.early = map[string]map[int]bool{}
				}
				if d.early[ev] == nil {
					d.early[ev] = map[int]bool{}
				}
				d.early[ev][gi] = true
			}
			if d.ansKey != key {
				d.ansKey = key
				d.answered = map[int]bool{}
			}
			d.answered[gi] = true
			d.hmu.Unlock()
		}
		return err
	})
}

// ---- playing a hand ------------------------------------------------------------------

func has(l []string, s string) bool {
	for _, x := range l {
		if x == s {
			return true
		}
	}
	return false
}

func (d *TD) runInj(plan *HandPlan, at string) {
	if d.injDone == nil {
		d.injDone = map[string]bool{}
	}
	key := fmt.Sprintf("%p/%s", plan, at)
	if d.injDone[key] {
		return
	}
	d.injDone[key] = true
	for _, in := range plan.Inj {
		if in.At == at {
			for _, o := range in.Ops {
				d.exec(o)
			}
		}
	}
}

func (d *TD) armGates(plan *HandPlan) {
	for _, in := range plan.Inj {
		if strings.HasPrefix(in.At, "g:") {
			d.arm(strings.TrimPrefix(in.At, "g:"), in.Ops)
		}
	}
}

// chooseAction picks a legal move for the current player from what the hand publishes.
func (d *TD) chooseAction(plan *HandPlan, gs *pokerface.GameState, turn int) (string, int64) {
	p := gs.Players[gs.Status.CurrentPlayer]
	al := p.AllowedActions
	if has(al, "pass") {
		return "pass", 0
	}
	if turn < len(plan.Script) {
		s := plan.Script[turn]
		if has(al, s.Kind) {
			return s.Kind, s.Amt
		}
	}
	w := map[string]int{"fold": 10, "check": 30, "call": 30, "allin": 8, "bet": 15, "raise": 15}
	switch plan.Policy {
	case "passive":
		w = map[string]int{"fold": 2, "check": 50, "call": 50, "allin": 1, "bet": 3, "raise": 3}
	case "aggro":
		w = map[string]int{"fold": 3, "check": 5, "call": 20, "allin": 35, "bet": 20, "raise": 25}
	case "foldy":
		w = map[string]int{"fold": 50, "check": 20, "call": 10, "allin": 3, "bet": 5, "raise": 5}
	case "raisy": // open, 3-bet, everybody else calls, the opener 4-bets; minimum raises from then on
		w = map[string]int{"fold": 0, "check": 4, "call": 4, "allin": 1, "bet": 90, "raise": 90}
		if gs.Status.Round == "preflop" {
			raisers := 0
			for _, q := range gs.Players {
				if q.DidAction == "raise" {
					raisers++
				}
			}
			if raisers == 2 && p.DidAction != "raise" && has(al, "call") {
				return "call", 0
			}
		}
	}
	tot := 0
	for _, a := range al {
		tot += w[a]
	}
	if tot == 0 {
		return al[0], 0
	}
	x := d.rng.Intn(tot)
	kind := al[0]
	for _, a := range al {
		if x < w[a] {
			kind = a
			break
		}
		x -= w[a]
	}
	amt := int64(0)
	switch kind {
	case "bet":
		lo, hi := gs.Status.MiniBet, p.InitialStackSize
		if hi <= lo {
			amt = hi
		} else {
			amt = lo + d.rng.Int63n(hi-lo+1)
			if d.rng.Intn(4) == 0 || plan.Policy == "raisy" {
				amt = lo
			}
		}
	case "raise":
		lo, hi := gs.Status.CurrentWager+gs.Status.PreviousRaiseSize, p.InitialStackSize
		if hi <= lo {
			amt = hi
		} else {
			amt = lo + d.rng.Int63n(hi-lo+1)
			if d.rng.Intn(4) == 0 || plan.Policy == "raisy" {
				amt = lo
			}
		}
	}
	return kind, amt
}

// playHand drives the table from "gate armed / between hands" through one complete hand.
// Returns "played", "noopen" (no hand opened), "stuck", "ended" (table closed / paused).
func (d *TD) playHand(plan *HandPlan) string {
	d.spy.mu.Lock()
	d.spy.Strength, d.spy.TieAll = plan.Strength, plan.TieAll
	d.spy.Late = d.sc.Seed%2 == 0
	d.spy.Fail = map[int]int{}
	for k, v := range plan.FailOrd {
		d.spy.Fail[k] = v
	}
	d.spy.FailKind = map[string]int{}
	for k, v := range plan.FailKind {
		d.spy.FailKind[k] = v
	}
	d.spy.mu.Unlock()
	d.hmu.Lock()
	d.curPlan = plan
	d.hmu.Unlock()
	d.armGates(plan)
	gc0 := d.table().State.GameCount
	d.runInj(plan, "prefinish")

	// settlement-finish signals for the armed gate
	d.hmu.Lock()
	parts := []string{}
	for id := range d.gateParts {
		parts = append(parts, id)
	}
	done := d.gateDone
	d.hmu.Unlock()
	sort.Strings(parts)
	if plan.ShuffleAns {
		d.rng.Shuffle(len(parts), func(i, j int) { parts[i], parts[j] = parts[j], parts[i] })
	}
	if !done {
		withhold := plan.WithholdFin
		for i, id := range parts {
			if i >= len(parts)-withhold {
				break
			}
			d.exec(Op{Op: "finish", ID: id})
			if plan.DupAnswers {
				d.exec(Op{Op: "finish", ID: id})
			}
		}
		allSig := true
		d.hmu.Lock()
		for id := range d.gateParts {
			if !d.gateSig[id] {
				allSig = false
			}
		}
		d.hmu.Unlock()
		if withhold > 0 || len(parts) == 0 || !allSig {
			// the gate opens by its own timeout (2 s)
			dl := time.Now().Add(3500 * time.Millisecond)
			for time.Now().Before(dl) {
				d.hmu.Lock()
				gd := d.gateDone
				d.hmu.Unlock()
				if gd || len(parts) == 0 {
					break
				}
				time.Sleep(2 * time.Millisecond)
			}
			d.settle()
			d.rec.Emit("q", mkArgs(), "", d.te, nil, nil, false)
		}
	}
	t := d.table()
	if t.State.GameCount == gc0 || t.State.GameState == nil && t.State.Status != pt.TableStateStatus_TableGamePlaying {
		if t.State.GameCount == gc0 {
			a := mkArgs()
			a.Note = "no hand opened after the gate"
			d.rec.Emit("noopen", a, "", d.te, nil, nil, false)
			return "noopen"
		}
	}
	turn, readyN := 0, 0
	maxTurns := plan.MaxTurns
	if maxTurns == 0 {
		maxTurns = 400
	}
	for iter := 0; iter < 2000; iter++ {
		if d.gone {
			return "ended"
		}
		t = d.table()
		st := t.State
		if st.GameCount != gc0+1 {
			return "played" // a next hand has already begun
		}
		if st.Status != pt.TableStateStatus_TableGamePlaying && st.Status != pt.TableStateStatus_TableGameOpened {
			if st.GameState == nil || st.Status == pt.TableStateStatus_TableGameStandby || st.Status == pt.TableStateStatus_TablePausing || st.Status == pt.TableStateStatus_TableClosed {
				if st.GameState != nil && (st.Status == pt.TableStateStatus_TablePausing || st.Status == pt.TableStateStatus_TableClosed) {
					// externally paused / closed with a live hand: the engine refuses every game action from now on
					return "ended"
				} else {
					d.runInj(plan, "settled")
					return "played"
				}
			}
		}
		gs := st.GameState
		if gs == nil {
			if d.settle() != "" {
				return "stuck"
			}
			continue
		}
		switch gs.Status.CurrentEvent {
		case "ReadyRequested", "AnteRequested", "BlindsRequested":
			need, phase := "ready", ""
			switch gs.Status.CurrentEvent {
			case "ReadyRequested":
				readyN++
				phase = fmt.Sprintf("ready%d", readyN)
			case "AnteRequested":
				need, phase = "pay", "ante"
			case "BlindsRequested":
				need, phase = "pay", "blinds"
			}
			d.runInj(plan, phase)
			if cur := d.table().State.GameState; cur == nil || cur.UpdatedAt != gs.UpdatedAt {
				continue
			}
			asked := []int{}
			for i, p := range gs.Players {
				if has(p.AllowedActions, need) {
					asked = append(asked, i)
				}
			}
			if plan.ShuffleAns {
				d.rng.Shuffle(len(asked), func(i, j int) { asked[i], asked[j] = asked[j], asked[i] })
			}
			if len(asked) == 0 {
				if d.settle() != "" {
					return "stuck"
				}
				time.Sleep(time.Millisecond)
				continue
			}
			held := -1
			if plan.WithholdAns == phase && len(asked) > 0 {
				held = asked[len(asked)-1]
				// announced BEFORE anybody answers: the state recorded here is the one that must still stand when the
				// withheld answer is finally given (repeated answers of the others must not stand in for it)
				a := mkArgs()
				a.Note, a.Amt, a.Kind, a.ID = "withheld:"+phase, int64(plan.WithholdMs), need, d.idOfGameIdx(held)
				d.rec.Emit("withhold", a, "", d.te, nil, nil, false)
			}
			d.hmu.Lock()
			earlier := d.early[gs.Status.CurrentEvent]
			delete(d.early, gs.Status.CurrentEvent)
			d.hmu.Unlock()
			for _, gi := range asked {
				if gi == held {
					continue
				}
				if earlier[gi] {
					// the engine accepted this player's answer before it published the request: a client does not repeat it
					d.hmu.Lock()
					if d.ansKey != gs.UpdatedAt {
						d.ansKey = gs.UpdatedAt
						d.answered = map[int]bool{}
					}
					d.answered[gi] = true
					d.hmu.Unlock()
					continue
				}
				id := d.idOfGameIdx(gi)
				amt := int64(0)
				if need == "pay" {
					amt = gs.Meta.Blind.BB
				}
				d.act(id, need, amt, "asked")
				if plan.DupAnswers {
					d.act(id, need, amt, "asked-again")
				}
			}
			if held >= 0 {
				a := mkArgs()
				a.Note, a.Amt, a.Kind = "withheld:"+phase, int64(plan.WithholdMs), need
				time.Sleep(time.Duration(plan.WithholdMs) * time.Millisecond)
				d.settle()
				d.rec.Emit("withheld", a, "", d.te, nil, nil, false)
				if cur := d.table().State.GameState; cur != nil && cur.UpdatedAt == gs.UpdatedAt {
					d.act(d.idOfGameIdx(held), need, 0, "asked-late")
				}
			}
		case "RoundStarted":
			d.runInj(plan, fmt.Sprintf("turn%d", turn))
			if plan.Policy == "raisy" && gs.Status.Round == "preflop" {
				// injections "after3bet": the first time the opener is asked again with exactly one re-raise behind his open
				raisers := 0
				for _, q := range gs.Players {
					if q.DidAction == "raise" {
						raisers++
					}
				}
				me := gs.Players[gs.Status.CurrentPlayer]
				if raisers == 2 && me.DidAction == "raise" && !d.after3betDone {
					d.after3betDone = true
					d.runInj(plan, "after3bet")
				}
			}
			cur := d.table().State.GameState
			if cur == nil || cur.UpdatedAt != gs.UpdatedAt {
				continue
			}
			if turn >= maxTurns {
				return "abandoned"
			}
			kind, amt := d.chooseAction(plan, gs, turn)
			id := d.idOfGameIdx(gs.Status.CurrentPlayer)
			if plan.ThinkMs > 0 && turn == plan.ThinkTurn {
				time.Sleep(time.Duration(plan.ThinkMs) * time.Millisecond) // the player takes his time: the next request is made that much later
			}
			res := d.act(id, kind, amt, "cur")
			turn++
			if res != "ok" {
				// e.g. an injected backend failure: retry the same move (bounded)
				for r := 0; r < 6 && res == "ErrInjected"; r++ {
					res = d.act(id, kind, amt, "cur-retry")
				}
				if res != "ok" {
					// fall back to a move that is always possible
					if has(gs.Players[gs.Status.CurrentPlayer].AllowedActions, "fold") {
						d.act(id, "fold", 0, "cur-fallback")
					} else if has(gs.Players[gs.Status.CurrentPlayer].AllowedActions, "check") {
						d.act(id, "check", 0, "cur-fallback")
					}
				}
			}
		default:
			if r := d.settle(); r != "" {
				return "stuck"
			}
			time.Sleep(200 * time.Microsecond)
			if cur := d.table().State.GameState; cur != nil && cur.UpdatedAt == gs.UpdatedAt && cur.Status.CurrentEvent == gs.Status.CurrentEvent {
				// nothing moves by itself any more (e.g. a failed automatic step)
				a := mkArgs()
				a.Note = "hand idle at " + gs.Status.CurrentEvent
				d.rec.Emit("idle", a, "", d.te, nil, nil, false)
				return "stuck"
			}
		}
		if d.stuck {
			return "stuck"
		}
	}
	return "stuck"
}

func minChipOf(sc *Scenario) int64 {
	if sc.MinChip <= 0 {
		return 1
	}
	return sc.MinChip
}

// managerProbes: an id that was never created, and the driver's own table after it has been closed / released through
// the manager, must yield the table-not-found error from every manager operation (C17).
func (d *TD) managerProbes() {
	m := d.mgr
	own := d.te.(*mgrEngine).id
	probe := func(id, phase string) {
		jp := pt.JoinPlayer{PlayerID: "x", RedeemChips: 1, Seat: -1}
		calls := []struct {
			n string
			f func() error
		}{
			{"GetTableEngine", func() error { _, e := m.GetTableEngine(id); return e }},
			{"PauseTable", func() error { return m.PauseTable(id) }}, {"StartTableGame", func() error { return m.StartTableGame(id) }},
			{"SetUpTableGame", func() error { return m.SetUpTableGame(id, 1, map[string]int{"x": 0}) }},
			{"UpdateBlind", func() error { return m.UpdateBlind(id, 2, 0, 0, 1, 2) }},
			{"UpdateTablePlayers", func() error { _, e := m.UpdateTablePlayers(id, []pt.JoinPlayer{jp}, nil); return e }},
			{"PlayerReserve", func() error { return m.PlayerReserve(id, jp) }}, {"PlayerJoin", func() error { return m.PlayerJoin(id, "x") }},
			{"PlayerSettlementFinish", func() error { return m.PlayerSettlementFinish(id, "x") }},
			{"PlayerRedeemChips", func() error { return m.PlayerRedeemChips(id, jp) }}, {"PlayersLeave", func() error { return m.PlayersLeave(id, []string{"x"}) }},
			{"PlayerExtendActionDeadline", func() error { _, e := m.PlayerExtendActionDeadline(id, "x", 3); return e }},
			{"PlayerReady", func() error { return m.PlayerReady(id, "x") }}, {"PlayerPay", func() error { return m.PlayerPay(id, "x", 1) }},
			{"PlayerBet", func() error { return m.PlayerBet(id, "x", 1) }}, {"PlayerRaise", func() error { return m.PlayerRaise(id, "x", 2) }},
			{"PlayerCall", func() error { return m.PlayerCall(id, "x") }}, {"PlayerAllin", func() error { return m.PlayerAllin(id, "x") }},
			{"PlayerCheck", func() error { return m.PlayerCheck(id, "x") }}, {"PlayerFold", func() error { return m.PlayerFold(id, "x") }},
			{"PlayerPass", func() error { return m.PlayerPass(id, "x") }},
			{"CloseTable", func() error { return m.CloseTable(id) }}, {"ReleaseTable", func() error { return m.ReleaseTable(id) }},
		}
		for _, c := range calls {
			by0 := d.bystanderDigest()
			var err error
			func() {
				defer func() {
					if r := recover(); r != nil {
						err = fmt.Errorf("panic: %v", r)
					}
				}()
				err = c.f()
			}()
			a := mkArgs()
			a.Kind, a.Note, a.ID = c.n, phase, id
			d.rec.mu.Lock()
			if d.bystanderDigest() == by0 {
				d.rec.by = "same"
			} else {
				d.rec.by = "changed"
			}
			d.rec.mu.Unlock()
			d.rec.Emit("mgrprobe", a, errNameT(err), nil, nil, nil, false)
		}
	}
	probe("never-created", "unknown")
	// a create that the engine refuses must leave no table behind: neither a new one under a fresh id nor a changed one
	// under the id of a live table
	bad := func(id string) pt.TableSetting {
		meta := pt.TableMeta{CompetitionID: "c", Rule: "default", Mode: "ct", MaxDuration: 1000000, TableMaxSeatCount: 2, TableMinPlayerCount: 2, MinChipUnit: 1, ActionTime: 10}
		jp := []pt.JoinPlayer{{PlayerID: "r1", RedeemChips: 5, Seat: 0}, {PlayerID: "r2", RedeemChips: 5, Seat: 1}, {PlayerID: "r3", RedeemChips: 5, Seat: -1}}
		switch d.sc.Seed % 3 {
		case 0:
			jp = []pt.JoinPlayer{{PlayerID: "r1", RedeemChips: 5, Seat: 0}, {PlayerID: "r1", RedeemChips: 5, Seat: 1}}
		case 1:
			jp = []pt.JoinPlayer{{PlayerID: "r1", RedeemChips: 5, Seat: 1}, {PlayerID: "r2", RedeemChips: 5, Seat: 1}}
		}
		return pt.TableSetting{TableID: id, Meta: meta, Blind: pt.TableBlindState{Level: 1, SB: 1, BB: 2}, JoinPlayers: jp}
	}
	refused := func(id, phase string) {
		by0 := d.bystanderDigest()
		res := func() (res string) {
			defer func() {
				if r := recover(); r != nil {
					res = "panic"
				}
			}()
			_, e := m.CreateTable(nil, nil, bad(id))
			return errNameT(e)
		}()
		a := mkArgs()
		a.Kind, a.Note, a.ID = "CreateTable", phase, id
		d.rec.mu.Lock()
		if d.bystanderDigest() == by0 {
			d.rec.by = "same"
		} else {
			d.rec.by = "changed"
		}
		d.rec.mu.Unlock()
		d.rec.Emit("mgrrefused", a, res, nil, nil, nil, false)
	}
	fresh := fmt.Sprintf("refused-%d", d.sc.Seed)
	refused(fresh, "fresh-id")
	probe(fresh, "after-refused-create")
	if len(d.bystanders) > 0 {
		refused(d.bystanders[0], "id-of-a-live-table")
	}
	// close (or release) the driver's own table through the manager, then it must be unknown as well
	a := mkArgs()
	var err error
	if _, gone := m.GetTableEngine(own); gone != nil {
		// the scenario itself closed / released the table through the manager
		a.Kind, a.Note = "already-removed", "own"
		d.rec.Emit("mgrclose", a, "ok", nil, nil, nil, false)
		probe(own, "after-scenario-close")
		return
	}
	if d.sc.Seed%2 == 0 {
		a.Kind = "CloseTable"
		d.rec.Emit("call:CloseTable", mkArgs(), "", d.te, nil, nil, false)
		err = m.CloseTable(own)
	} else {
		a.Kind = "ReleaseTable"
		d.rec.Emit("call:ReleaseTable", mkArgs(), "", d.te, nil, nil, false)
		err = m.ReleaseTable(own)
	}
	a.Note = "own"
	d.rec.Emit("mgrclose", a, errNameT(err), nil, nil, nil, false)
	probe(own, "after-"+a.Kind)
	// the bystanders are still there and untouched
	for _, id := range d.bystanders {
		_, e := m.GetTableEngine(id)
		b := mkArgs()
		b.Kind, b.ID = "GetTableEngine", id
		d.rec.Emit("mgrbystander", b, errNameT(e), nil, nil, nil, false)
	}
}

// ---- running a scenario ---------------------------------------------------------------

func (d *TD) Run() string {
	sc := d.sc
	a := mkArgs()
	a.Blind = append([]int64{}, sc.Blind...)
	a.Seat, a.Gc, a.Kind, a.Note, a.Amt = sc.N, sc.MinPlayers, sc.Mode, sc.Rule, int64(sc.ActionTime)
	jp := []pt.JoinPlayer{}
	for _, j := range sc.Initial {
		jp = append(jp, pt.JoinPlayer{PlayerID: j.ID, RedeemChips: j.Chips, Seat: j.Seat})
		a.Joins = append(a.Joins, []interface{}{j.ID, j.Seat, j.Chips})
	}
	setting := pt.TableSetting{TableID: fmt.Sprintf("t%d", sc.Seed), Meta: pt.TableMeta{CompetitionID: "c", Rule: sc.Rule, Mode: sc.Mode,
		MaxDuration: 1000000, TableMaxSeatCount: sc.N, TableMinPlayerCount: sc.MinPlayers, MinChipUnit: minChipOf(sc), ActionTime: sc.ActionTime},
		JoinPlayers: jp, Blind: pt.TableBlindState{Level: int(sc.Blind[0]), Ante: sc.Blind[1], Dealer: sc.Blind[2], SB: sc.Blind[3], BB: sc.Blind[4]}}
	res := func() (res string) {
		defer func() {
			if r := recover(); r != nil {
				res = "panic"
				fmt.Fprintf(os.Stderr, "panic in CreateTable: %v\n", r)
			}
		}()
		_, err := d.te.CreateTable(setting)
		return errNameT(err)
	}()
	if d.mgr != nil && res == "ok" {
		pt.VerifSetHook(realEngine(d.te), d.hook)
		// one more bystander, created AFTER the driver's table with default callbacks, and used: nothing of it may
		// reach the driver's table or its listeners
		if bt, err := d.mgr.CreateTable(nil, nil, pt.TableSetting{TableID: fmt.Sprintf("late%d", sc.Seed), Meta: pt.TableMeta{CompetitionID: "c", Rule: "default", Mode: "ct",
			MaxDuration: 1000000, TableMaxSeatCount: 4, TableMinPlayerCount: 2, MinChipUnit: 1, ActionTime: 10}, Blind: pt.TableBlindState{Level: 1, SB: 1, BB: 2}}); err == nil && bt != nil {
			d.mgr.PlayerReserve(bt.ID, pt.JoinPlayer{PlayerID: "late1", RedeemChips: 5, Seat: 0})
			d.mgr.PlayerJoin(bt.ID, "late1")
			d.mgr.PauseTable(bt.ID)
			d.bystanders = append(d.bystanders, bt.ID)
		}
	}
	if d.mgr != nil && res == "ok" && sc.Seed%2 == 0 {
		d.startCompanion()
		defer d.stopCompanion()
	}
	d.rec.Emit("ret:CreateTable", a, res, d.te, nil, nil, false)
	if res != "ok" {
		d.rec.Emit("end", mkArgs(), "create-failed", d.te, nil, nil, false)
		return "create-failed"
	}
	d.settle()
	outcome := "done"
	for _, s := range sc.Steps {
		if s.Op != nil {
			d.exec(*s.Op)
		} else if s.Hand != nil {
			var r string
			if sc.Bots {
				r = d.playHandBots()
			} else {
				r = d.playHand(s.Hand)
			}
			if r == "stuck" {
				outcome = "stuck"
				break
			}
		}
		if d.stuck {
			outcome = "stuck"
			break
		}
		if d.gone {
			break
		}
	}
	d.settle()
	e := mkArgs()
	e.Note = outcome
	d.rec.Emit("end", e, outcome, d.te, nil, nil, false)
	if d.mgr != nil {
		d.managerProbes()
	}
	d.hmu.Lock()
	d.dead = true
	d.hmu.Unlock()
	if re := realEngine(d.te); re != nil {
		pt.VerifSetHook(re, nil)
	}
	return outcome
}

// startCompanion: a second LIVE table of the same manager, played by two real bots hand after hand while the table under
// test is driven: its timers, gate and hands run next to ours (every manager table must keep to itself, C17).
func (d *TD) startCompanion() {
	id := fmt.Sprintf("co%d", d.sc.Seed)
	m := d.mgr
	cbs := pt.NewTableEngineCallbacks()
	var mu sync.Mutex
	bots := map[string]interface{ UpdateTableState(*pt.Table) error }{}
	stopped := false
	cbs.OnTableUpdated = func(t *pt.Table) {
		mu.Lock()
		if stopped || t == nil || t.State == nil {
			mu.Unlock()
			return
		}
		te, err := m.GetTableEngine(id)
		if err != nil {
			mu.Unlock()
			return
		}
		var todo []interface{ UpdateTableState(*pt.Table) error }
		for _, p := range t.State.PlayerStates {
			h, ok := bots[p.PlayerID]
			if !ok {
				a := actor.NewActor()
				ad := actor.NewTableEngineAdapter(te, t)
				a.SetAdapter(ad)
				a.SetRunner(actor.NewBotRunner(p.PlayerID))
				h = ad
				bots[p.PlayerID] = h
			}
			todo = append(todo, h)
		}
		mu.Unlock()
		for _, h := range todo {
			h.UpdateTableState(t)
		}
	}
	cbs.OnReadyOpenFirstTableGame = func(c, tid string, gc int, ps []*pt.TablePlayerState) {
		parts := map[string]int{}
		for i, p := range ps {
			parts[p.PlayerID] = i
		}
		m.SetUpTableGame(id, gc, parts)
	}
	_, err := m.CreateTable(&pt.TableEngineOptions{GameContinueInterval: 1, OpenGameTimeout: 2}, cbs, pt.TableSetting{TableID: id,
		Meta:  pt.TableMeta{CompetitionID: "c", Rule: "default", Mode: "ct", MaxDuration: 1000000, TableMaxSeatCount: 4, TableMinPlayerCount: 2, MinChipUnit: 1, ActionTime: 10},
		Blind: pt.TableBlindState{Level: 1, SB: 1, BB: 2}, JoinPlayers: []pt.JoinPlayer{{PlayerID: "c1", RedeemChips: 100000, Seat: 0}, {PlayerID: "c2", RedeemChips: 100000, Seat: 2}}})
	if err != nil {
		return
	}
	d.companion = id
	d.stopCompanionFn = func() {
		mu.Lock()
		stopped = true
		mu.Unlock()
	}
	m.PlayerJoin(id, "c1")
	m.PlayerJoin(id, "c2")
	m.StartTableGame(id)
}

func (d *TD) stopCompanion() {
	if d.companion == "" {
		return
	}
	if d.stopCompanionFn != nil {
		d.stopCompanionFn()
	}
	d.mgr.CloseTable(d.companion)
	d.companion = ""
}
