package main

import (
	"crypto/sha1"
	"encoding/hex"
	"encoding/json"
	"errors"
	"sync"

	"github.com/weedbox/pokerface"
	pt "github.com/weedbox/pokertable"
)

var ErrInjected = errors.New("verif: injected backend failure")

// SpyBackend wraps the native backend: records every call, injects failures, stacks the deck.
type SpyBackend struct {
	n    *pt.NativeGameBackend
	mu   sync.Mutex
	ord  int            // ordinal of backend calls in the current hand (1-based), reset by CreateGame
	hand int            // hand ordinal
	Fail map[int]int    // ordinal -> how many times the call at that ordinal fails before it is let through
	FailKind map[string]int // kind -> remaining failures
	Late     bool       // injected failures of player actions strike AFTER the native backend has done the work (the answer is lost)
	Strength []int      // per game index; nil = leave the shuffled deck alone
	TieAll   bool
	Opts     *pokerface.GameOptions
	OnCall   func(kind string, ord int, ok bool, in, out string, gs *pokerface.GameState, opts *pokerface.GameOptions, amt int64)
}

func NewSpy() *SpyBackend {
	return &SpyBackend{n: pt.NewNativeGameBackend(), Fail: map[int]int{}, FailKind: map[string]int{}}
}

func gsDigest(gs *pokerface.GameState) string {
	if gs == nil {
		return "nil"
	}
	c := *gs
	c.GameID, c.CreatedAt, c.UpdatedAt = "", 0, 0
	b, _ := json.Marshal(&c)
	h := sha1.Sum(b)
	return hex.EncodeToString(h[:6])
}

func (s *SpyBackend) step(kind string, in *pokerface.GameState, f func() (*pokerface.GameState, error), amts ...int64) (*pokerface.GameState, error) {
	amt := int64(0)
	if len(amts) > 0 {
		amt = amts[0]
	}
	s.mu.Lock()
	if kind == "create" {
		s.ord = 0
		s.hand++
	}
	s.ord++
	ord := s.ord
	fail := false
	if s.Fail[ord] > 0 {
		s.Fail[ord]--
		fail = true
		s.ord-- // the retry of the same logical step keeps its ordinal
	} else if s.FailKind[kind] > 0 {
		s.FailKind[kind]--
		fail = true
		s.ord--
	}
	cb := s.OnCall
	s.mu.Unlock()
	ind := gsDigest(in)
	if fail {
		s.mu.Lock()
		late := s.Late
		s.mu.Unlock()
		if late && kind != "create" && kind != "readyall" && kind != "ante" && kind != "blinds" && kind != "next" {
			f() // the backend worked on the state it was handed; whatever it did must not show
		}
		if cb != nil {
			cb(kind, ord, false, ind, "", nil, nil, amt)
		}
		return nil, ErrInjected
	}
	out, err := f()
	if err != nil {
		s.mu.Lock()
		s.ord--
		s.mu.Unlock()
		if cb != nil {
			cb(kind, ord, false, ind, "err:"+err.Error(), nil, nil, amt)
		}
		return out, err
	}
	if cb != nil {
		var o *pokerface.GameOptions
		if kind == "create" {
			o = s.Opts
		}
		cb(kind, ord, true, ind, gsDigest(out), out, o, amt)
	}
	return out, nil
}

func (s *SpyBackend) CreateGame(o *pokerface.GameOptions) (*pokerface.GameState, error) {
	s.Opts = o
	return s.step("create", nil, func() (*pokerface.GameState, error) {
		gs, err := s.n.CreateGame(o)
		if err == nil && gs != nil && gs.Meta.HoleCardsCount == 2 && len(gs.Meta.Deck) == 52 {
			if s.TieAll {
				gs.Meta.Deck = stackDeckTieAll(len(gs.Players))
			} else if s.Strength != nil && len(s.Strength) >= len(gs.Players) {
				if d := stackDeck(s.Strength[:len(gs.Players)]); d != nil {
					gs.Meta.Deck = d
				}
			}
		}
		return gs, err
	})
}
func (s *SpyBackend) ReadyForAll(g *pokerface.GameState) (*pokerface.GameState, error) {
	return s.step("readyall", g, func() (*pokerface.GameState, error) { return s.n.ReadyForAll(g) })
}
func (s *SpyBackend) PayAnte(g *pokerface.GameState) (*pokerface.GameState, error) {
	return s.step("ante", g, func() (*pokerface.GameState, error) { return s.n.PayAnte(g) })
}
func (s *SpyBackend) PayBlinds(g *pokerface.GameState) (*pokerface.GameState, error) {
	return s.step("blinds", g, func() (*pokerface.GameState, error) { return s.n.PayBlinds(g) })
}
func (s *SpyBackend) Next(g *pokerface.GameState) (*pokerface.GameState, error) {
	return s.step("next", g, func() (*pokerface.GameState, error) { return s.n.Next(g) })
}
func (s *SpyBackend) Pay(g *pokerface.GameState, c int64) (*pokerface.GameState, error) {
	return s.step("pay", g, func() (*pokerface.GameState, error) { return s.n.Pay(g, c) }, c)
}
func (s *SpyBackend) Fold(g *pokerface.GameState) (*pokerface.GameState, error) {
	return s.step("fold", g, func() (*pokerface.GameState, error) { return s.n.Fold(g) })
}
func (s *SpyBackend) Check(g *pokerface.GameState) (*pokerface.GameState, error) {
	return s.step("check", g, func() (*pokerface.GameState, error) { return s.n.Check(g) })
}
func (s *SpyBackend) Call(g *pokerface.GameState) (*pokerface.GameState, error) {
	return s.step("call", g, func() (*pokerface.GameState, error) { return s.n.Call(g) })
}
func (s *SpyBackend) Allin(g *pokerface.GameState) (*pokerface.GameState, error) {
	return s.step("allin", g, func() (*pokerface.GameState, error) { return s.n.Allin(g) })
}
func (s *SpyBackend) Bet(g *pokerface.GameState, c int64) (*pokerface.GameState, error) {
	return s.step("bet", g, func() (*pokerface.GameState, error) { return s.n.Bet(g, c) }, c)
}
func (s *SpyBackend) Raise(g *pokerface.GameState, c int64) (*pokerface.GameState, error) {
	return s.step("raise", g, func() (*pokerface.GameState, error) { return s.n.Raise(g, c) }, c)
}
func (s *SpyBackend) Pass(g *pokerface.GameState) (*pokerface.GameState, error) {
	return s.step("pass", g, func() (*pokerface.GameState, error) { return s.n.Pass(g) })
}

// ---- deck stacking ----------------------------------------------------------------
// Board C2 D3 H4 S8 CK (no straight / flush possible with pocket pairs).  Pocket pairs in decreasing strength:
// KK (set) > 88 (set) > AA > QQ > JJ > TT > 99 > 77 > 66 > 55.  strength[i] = rank of game index i (0 = best);
// two players may share a rank (split pot) except at ranks 0 and 1.
var pairOrder = []string{"K", "8", "A", "Q", "J", "T", "9", "7", "6", "5"}

func stackDeck(strength []int) []string {
	board := []string{"C2", "D3", "H4", "S8", "CK"}
	used := map[string]bool{}
	for _, c := range board {
		used[c] = true
	}
	cnt := map[int]int{}
	deck := []string{}
	for _, st := range strength {
		if st < 0 || st >= len(pairOrder) {
			return nil
		}
		r := pairOrder[st]
		var a, b string
		switch {
		case cnt[st] == 0 && r == "8":
			a, b = "H8", "D8"
		case cnt[st] == 0:
			a, b = "S"+r, "H"+r
		case cnt[st] == 1 && r != "K" && r != "8":
			a, b = "D"+r, "C"+r
		default:
			return nil
		}
		cnt[st]++
		used[a], used[b] = true, true
		deck = append(deck, a, b)
	}
	// pokerface deals hole cards one round at a time? It deals HoleCardsCount cards per player in index order.
	rest := []string{}
	for _, c := range pokerface.NewStandardDeckCards() {
		if !used[c] {
			rest = append(rest, c)
		}
	}
	deck = append(deck, rest[0], board[0], board[1], board[2], rest[1], board[3], rest[2], board[4])
	deck = append(deck, rest[3:]...)
	return deck
}

func stackDeckTieAll(np int) []string {
	board := []string{"CT", "DJ", "HQ", "SK", "CA"}
	used := map[string]bool{}
	for _, c := range board {
		used[c] = true
	}
	low := []string{"S2", "H3", "D2", "C3", "S4", "H5", "D4", "C5", "S6", "H7", "D6", "C7", "S3", "H2", "D3", "C2", "S5", "H4", "D5", "C4"}
	deck := []string{}
	for i := 0; i < np; i++ {
		deck = append(deck, low[2*i], low[2*i+1])
		used[low[2*i]], used[low[2*i+1]] = true, true
	}
	rest := []string{}
	for _, c := range pokerface.NewStandardDeckCards() {
		if !used[c] {
			rest = append(rest, c)
		}
	}
	deck = append(deck, rest[0], board[0], board[1], board[2], rest[1], board[3], rest[2], board[4])
	deck = append(deck, rest[3:]...)
	return deck
}
