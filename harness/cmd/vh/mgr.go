package main

import (
	pt "github.com/weedbox/pokertable"
)

// mgrEngine routes every TableEngine call of the table driver through a pokertable.Manager (C17): what the driver
// does to "its" table it does by table id, next to bystander tables that must not be affected.
type mgrEngine struct {
	m      pt.Manager
	id     string
	inner  pt.TableEngine
	cbs    *pt.TableEngineCallbacks
	probes func(method string, err error)
	voidErr error
}

func (e *mgrEngine) eng() pt.TableEngine {
	if e.inner == nil {
		if te, err := e.m.GetTableEngine(e.id); err == nil {
			e.inner = te
		}
	}
	return e.inner
}

func (e *mgrEngine) OnTableUpdated(fn func(*pt.Table))                       { e.cbs.OnTableUpdated = fn }
func (e *mgrEngine) OnTableErrorUpdated(fn func(*pt.Table, error))           { e.cbs.OnTableErrorUpdated = fn }
func (e *mgrEngine) OnTableStateUpdated(fn func(string, *pt.Table))          { e.cbs.OnTableStateUpdated = fn }
func (e *mgrEngine) OnTablePlayerStateUpdated(fn func(string, string, *pt.TablePlayerState)) {
	e.cbs.OnTablePlayerStateUpdated = fn
}
func (e *mgrEngine) OnTablePlayerReserved(fn func(string, string, *pt.TablePlayerState)) {
	e.cbs.OnTablePlayerReserved = fn
}
func (e *mgrEngine) OnGamePlayerActionUpdated(fn func(pt.TablePlayerGameAction)) {
	e.cbs.OnGamePlayerActionUpdated = fn
}
func (e *mgrEngine) OnAutoGameOpenEnd(fn func(string, string)) { e.cbs.OnAutoGameOpenEnd = fn }
func (e *mgrEngine) OnReadyOpenFirstTableGame(fn func(string, string, int, []*pt.TablePlayerState)) {
	e.cbs.OnReadyOpenFirstTableGame = fn
}
func (e *mgrEngine) ReleaseTable() error { return e.m.ReleaseTable(e.id) }
func (e *mgrEngine) GetTable() *pt.Table {
	if e.eng() == nil {
		return nil
	}
	return e.eng().GetTable()
}
func (e *mgrEngine) GetGame() pt.Game {
	if e.eng() == nil {
		return nil
	}
	return e.eng().GetGame()
}
func (e *mgrEngine) CreateTable(s pt.TableSetting) (*pt.Table, error) {
	return e.m.CreateTable(&pt.TableEngineOptions{GameContinueInterval: 0, OpenGameTimeout: 2}, e.cbs, s)
}
func (e *mgrEngine) PauseTable() error     { return e.m.PauseTable(e.id) }
func (e *mgrEngine) CloseTable() error     { return e.m.CloseTable(e.id) }
func (e *mgrEngine) StartTableGame() error { return e.m.StartTableGame(e.id) }
func (e *mgrEngine) UpdateBlind(level int, ante, dealer, sb, bb int64) {
	e.voidErr = e.m.UpdateBlind(e.id, level, ante, dealer, sb, bb)
}
func (e *mgrEngine) SetUpTableGame(gc int, parts map[string]int) {
	e.voidErr = e.m.SetUpTableGame(e.id, gc, parts)
}

// takeVoidErr: what the manager answered to the last call whose engine counterpart returns nothing
func (e *mgrEngine) takeVoidErr() error {
	err := e.voidErr
	e.voidErr = nil
	return err
}
func (e *mgrEngine) UpdateTablePlayers(j []pt.JoinPlayer, l []string) (map[string]int, error) {
	return e.m.UpdateTablePlayers(e.id, j, l)
}
func (e *mgrEngine) PlayerReserve(j pt.JoinPlayer) error     { return e.m.PlayerReserve(e.id, j) }
func (e *mgrEngine) PlayerJoin(p string) error               { return e.m.PlayerJoin(e.id, p) }
func (e *mgrEngine) PlayerSettlementFinish(p string) error   { return e.m.PlayerSettlementFinish(e.id, p) }
func (e *mgrEngine) PlayerRedeemChips(j pt.JoinPlayer) error { return e.m.PlayerRedeemChips(e.id, j) }
func (e *mgrEngine) PlayersLeave(ids []string) error         { return e.m.PlayersLeave(e.id, ids) }
func (e *mgrEngine) PlayerExtendActionDeadline(p string, d int) (int64, error) {
	return e.m.PlayerExtendActionDeadline(e.id, p, d)
}
func (e *mgrEngine) PlayerReady(p string) error          { return e.m.PlayerReady(e.id, p) }
func (e *mgrEngine) PlayerPay(p string, c int64) error   { return e.m.PlayerPay(e.id, p, c) }
func (e *mgrEngine) PlayerBet(p string, c int64) error   { return e.m.PlayerBet(e.id, p, c) }
func (e *mgrEngine) PlayerRaise(p string, c int64) error { return e.m.PlayerRaise(e.id, p, c) }
func (e *mgrEngine) PlayerCall(p string) error           { return e.m.PlayerCall(e.id, p) }
func (e *mgrEngine) PlayerAllin(p string) error          { return e.m.PlayerAllin(e.id, p) }
func (e *mgrEngine) PlayerCheck(p string) error          { return e.m.PlayerCheck(e.id, p) }
func (e *mgrEngine) PlayerFold(p string) error           { return e.m.PlayerFold(e.id, p) }
func (e *mgrEngine) PlayerPass(p string) error           { return e.m.PlayerPass(e.id, p) }
