package main

import (
	"bufio"
	"encoding/json"
	"flag"
	"fmt"
	"math/rand"
	"os"
	"sort"
	"strings"

	sm "github.com/weedbox/pokertable/seat_manager"
)

func init() {
	commands["sm-bfs"] = smBFS
	commands["sm-walk"] = smWalk
}

// ---- projection -----------------------------------------------------------

type smSeat struct {
	ID    string
	In    bool
	Btw   bool
	Chips bool
}

// SMState is the projected abstract state of a seat manager (what every line carries).
type SMState struct {
	N      int           `json:"n"`
	Rule   string        `json:"rule"`
	Seat   []interface{} `json:"seat"` // per seat: [id, in, btw, chips]
	Dealer int           `json:"dealer"`
	SB     int           `json:"sb"`
	BB     int           `json:"bb"`
	Inited bool          `json:"inited"`
	Extra  int           `json:"extra"` // entries outside 0..n-1 (must be 0)
}

type smRaw struct {
	MaxSeat      int                    `json:"max_seat"`
	SeatData     map[int]*sm.SeatPlayer `json:"seat_data"`
	DealerSeatID int                    `json:"dealer_seat_id"`
	SBSeatID     int                    `json:"sb_seat_id"`
	BBSeatID     int                    `json:"bb_seat_id"`
	Rule         string                 `json:"rule"`
	IsInit       bool                   `json:"is_init"`
}

func projectSM(m sm.SeatManager, n int, rule string) SMState {
	st := SMState{N: n, Rule: rule, Dealer: m.CurrentDealerSeatID(), SB: m.CurrentSBSeatID(), BB: m.CurrentBBSeatID(), Inited: m.IsInitPositions()}
	seats := m.Seats()
	for i := 0; i < n; i++ {
		sp := seats[i]
		if sp == nil {
			st.Seat = append(st.Seat, []interface{}{"", false, false, false})
		} else {
			st.Seat = append(st.Seat, []interface{}{sp.ID, sp.IsIn, sp.IsBetweenDealerBB, sp.HasChips})
		}
	}
	for k := range seats {
		if k < 0 || k >= n {
			st.Extra++
		}
	}
	return st
}

func errName(err error) string {
	if err == nil {
		return "ok"
	}
	switch err {
	case sm.ErrNotEnoughSeats:
		return "ErrNotEnoughSeats"
	case sm.ErrPlayerNotFound:
		return "ErrPlayerNotFound"
	case sm.ErrPlayerIsAlreadyExist:
		return "ErrPlayerIsAlreadyExist"
	case sm.ErrUnavailableSeat:
		return "ErrUnavailableSeat"
	case sm.ErrDuplicatePlayers:
		return "ErrDuplicatePlayers"
	case sm.ErrDuplicateSeats:
		return "ErrDuplicateSeats"
	case sm.ErrSeatAlreadyIsTaken:
		return "ErrSeatAlreadyIsTaken"
	case sm.ErrUnableToInitPositions:
		return "ErrUnableToInitPositions"
	case sm.ErrAlreadyInitPositions:
		return "ErrAlreadyInitPositions"
	case sm.ErrUnableToRotatePositions:
		return "ErrUnableToRotatePositions"
	}
	return "err:" + err.Error()
}

// ---- operations -----------------------------------------------------------

type smOp struct {
	Op   string         `json:"op"`
	Map  map[string]int `json:"map,omitempty"`  // assign
	IDs  []string       `json:"ids,omitempty"`  // random / remove / join
	ID   string         `json:"id,omitempty"`   // chips
	Flag bool           `json:"flag,omitempty"` // chips value / init random
}

func applySM(m sm.SeatManager, o smOp) (res string) {
	defer func() {
		if r := recover(); r != nil {
			res = "panic"
			fmt.Fprintf(os.Stderr, "panic in %s: %v\n", o.Op, r)
		}
	}()
	switch o.Op {
	case "assign":
		return errName(m.AssignSeats(o.Map))
	case "random":
		return errName(m.RandomAssignSeats(o.IDs))
	case "remove":
		return errName(m.RemoveSeats(o.IDs))
	case "join":
		return errName(m.JoinPlayers(o.IDs))
	case "chips":
		return errName(m.UpdatePlayerHasChips(o.ID, o.Flag))
	case "init":
		return errName(m.InitPositions(o.Flag))
	case "rotate":
		return errName(m.RotatePositions())
	}
	return "unknown-op"
}

type smLine struct {
	Tr   int     `json:"tr"`
	From SMState `json:"from"`
	Op   string  `json:"op"`
	Map  map[string]int `json:"map"`
	IDs  []string `json:"ids"`
	ID   string  `json:"id"`
	Flag bool    `json:"flag"`
	Res  string  `json:"res"`
	To   SMState `json:"to"`
}

func mkLine(tr int, from SMState, o smOp, res string, to SMState) smLine {
	l := smLine{Tr: tr, From: from, Op: o.Op, Map: o.Map, IDs: o.IDs, ID: o.ID, Flag: o.Flag, Res: res, To: to}
	if l.Map == nil {
		l.Map = map[string]int{}
	}
	if l.IDs == nil {
		l.IDs = []string{}
	}
	return l
}

func silence() func() {
	// the seat manager prints debug state on every error path
	old := os.Stdout
	null, _ := os.OpenFile(os.DevNull, os.O_WRONLY, 0)
	os.Stdout = null
	return func() { os.Stdout = old; null.Close() }
}

func rawOf(m sm.SeatManager) []byte { return sm.VerifDump(m) }

// canonical key under renaming of player ids (ids renamed in seat order)
func canonKey(st SMState) string {
	ren := map[string]string{}
	var b strings.Builder
	fmt.Fprintf(&b, "%d|%d|%d|%v|%d|", st.Dealer, st.SB, st.BB, st.Inited, st.Extra)
	for _, s := range st.Seat {
		a := s.([]interface{})
		id := a[0].(string)
		if id != "" {
			if _, ok := ren[id]; !ok {
				ren[id] = fmt.Sprintf("q%d", len(ren))
			}
			id = ren[id]
		}
		fmt.Fprintf(&b, "%s,%v,%v,%v;", id, a[1], a[2], a[3])
	}
	return b.String()
}

func enumOps(n int, players []string, maxBatch int) []smOp {
	var ops []smOp
	for _, p := range players {
		for s := 0; s <= n; s++ {
			ops = append(ops, smOp{Op: "assign", Map: map[string]int{p: s}})
		}
		ops = append(ops, smOp{Op: "random", IDs: []string{p}})
		ops = append(ops, smOp{Op: "remove", IDs: []string{p}})
		ops = append(ops, smOp{Op: "join", IDs: []string{p}})
		ops = append(ops, smOp{Op: "chips", ID: p, Flag: true})
		ops = append(ops, smOp{Op: "chips", ID: p, Flag: false})
	}
	if maxBatch >= 2 {
		for i, p := range players {
			for _, q := range players[i+1:] {
				for s := 0; s <= n; s++ {
					for t := 0; t <= n; t++ {
						ops = append(ops, smOp{Op: "assign", Map: map[string]int{p: s, q: t}})
					}
				}
				ops = append(ops, smOp{Op: "random", IDs: []string{p, q}})
				ops = append(ops, smOp{Op: "remove", IDs: []string{p, q}})
				ops = append(ops, smOp{Op: "join", IDs: []string{p, q}})
			}
			// a batch naming the same id twice
			ops = append(ops, smOp{Op: "random", IDs: []string{p, p}})
		}
	}
	ops = append(ops, smOp{Op: "init", Flag: false}, smOp{Op: "init", Flag: true}, smOp{Op: "rotate"})
	return ops
}

// smBFS explores the reachable state graph of the REAL seat manager
// (modulo renaming of player ids) and logs transitions.
func smBFS(args []string) int {
	fs := flag.NewFlagSet("sm-bfs", flag.ExitOnError)
	n := fs.Int("n", 3, "seat count")
	np := fs.Int("players", 3, "number of player ids")
	rule := fs.String("rule", "default", "rule")
	maxBatch := fs.Int("maxbatch", 2, "max batch size")
	out := fs.String("out", "", "output ndjson")
	sample := fs.Int("sample", 1, "log 1 in K of the non-rotation transitions (rotate/init always logged)")
	repeat := fs.Int("repeat", 3, "how often random operations are repeated per state")
	limit := fs.Int("limit", 0, "stop after this many states (0 = exhaust)")
	fs.Parse(args)
	players := []string{}
	for i := 1; i <= *np; i++ {
		players = append(players, fmt.Sprintf("p%d", i))
	}
	f, err := os.Create(*out)
	if err != nil {
		fmt.Fprintln(os.Stderr, err)
		return 2
	}
	w := bufio.NewWriterSize(f, 1<<20)
	enc := json.NewEncoder(w)
	restore := silence()
	ops := enumOps(*n, players, *maxBatch)
	start := sm.NewSeatManager(*n, *rule)
	seen := map[string]bool{canonKey(projectSM(start, *n, *rule)): true}
	queue := [][]byte{rawOf(start)}
	states, lines, counter := 0, 0, 0
	for len(queue) > 0 {
		raw := queue[0]
		queue = queue[1:]
		states++
		if *limit > 0 && states > *limit {
			break
		}
		base, _ := sm.VerifRestore(raw)
		from := projectSM(base, *n, *rule)
		for _, o := range ops {
			reps := 1
			if o.Op == "random" || (o.Op == "init" && o.Flag) {
				reps = *repeat
			}
			for r := 0; r < reps; r++ {
				m, _ := sm.VerifRestore(raw)
				res := applySM(m, o)
				to := projectSM(m, *n, *rule)
				counter++
				if o.Op == "rotate" || o.Op == "init" || *sample <= 1 || counter%*sample == 0 {
					enc.Encode(mkLine(states, from, o, res, to))
					lines++
				}
				if res == "panic" || to.Extra > 0 {
					continue // not a state worth expanding
				}
				k := canonKey(to)
				if !seen[k] {
					seen[k] = true
					queue = append(queue, rawOf(m))
				}
			}
		}
	}
	w.Flush()
	f.Close()
	restore()
	fmt.Printf("{\"states\":%d,\"lines\":%d,\"exhausted\":%v}\n", len(seen), lines, len(queue) == 0)
	return 0
}

// smWalk: seeded random walks over large seat counts, biased toward the
// situations the rotation rule has to cope with.
func smWalk(args []string) int {
	fs := flag.NewFlagSet("sm-walk", flag.ExitOnError)
	seed := fs.Int64("seed", 1, "seed")
	walks := fs.Int("walks", 100, "number of walks")
	steps := fs.Int("steps", 80, "steps per walk")
	out := fs.String("out", "", "output ndjson")
	minN := fs.Int("minn", 2, "min seat count")
	maxN := fs.Int("maxn", 10, "max seat count")
	fs.Parse(args)
	f, err := os.Create(*out)
	if err != nil {
		fmt.Fprintln(os.Stderr, err)
		return 2
	}
	w := bufio.NewWriterSize(f, 1<<20)
	enc := json.NewEncoder(w)
	restore := silence()
	rng := rand.New(rand.NewSource(*seed))
	lines := 0
	for wk := 0; wk < *walks; wk++ {
		n := *minN + rng.Intn(*maxN-*minN+1)
		rule := "default"
		if rng.Intn(5) == 0 {
			rule = "short_deck"
		}
		np := 2 + rng.Intn(n)
		if np > n+1 {
			np = n + 1
		}
		players := []string{}
		for i := 1; i <= np; i++ {
			players = append(players, fmt.Sprintf("p%d", i))
		}
		m := sm.NewSeatManager(n, rule)
		pick := func() string { return players[rng.Intn(len(players))] }
		for s := 0; s < *steps; s++ {
			var o smOp
			seated := []string{}
			for _, sp := range m.Seats() {
				if sp != nil {
					seated = append(seated, sp.ID)
				}
			}
			sort.Strings(seated)
			x := rng.Intn(100)
			switch {
			case x < 14:
				o = smOp{Op: "assign", Map: map[string]int{pick(): rng.Intn(n + 1)}}
				if rng.Intn(4) == 0 {
					o.Map[pick()] = rng.Intn(n)
				}
			case x < 22:
				o = smOp{Op: "random", IDs: []string{pick()}}
				if rng.Intn(4) == 0 {
					o.IDs = append(o.IDs, pick())
				}
			case x < 30:
				o = smOp{Op: "remove", IDs: []string{pick()}}
			case x < 48:
				if len(seated) > 0 && rng.Intn(8) != 0 {
					o = smOp{Op: "join", IDs: []string{seated[rng.Intn(len(seated))]}}
				} else {
					o = smOp{Op: "join", IDs: []string{pick()}}
				}
			case x < 62:
				o = smOp{Op: "chips", ID: pick(), Flag: rng.Intn(3) != 0}
			case x < 70:
				o = smOp{Op: "init", Flag: rng.Intn(2) == 0}
			default:
				o = smOp{Op: "rotate"}
			}
			from := projectSM(m, n, rule)
			res := applySM(m, o)
			to := projectSM(m, n, rule)
			enc.Encode(mkLine(wk, from, o, res, to))
			lines++
			if res == "panic" || to.Extra > 0 {
				break
			}
		}
	}
	w.Flush()
	f.Close()
	restore()
	fmt.Printf("{\"walks\":%d,\"lines\":%d}\n", *walks, lines)
	return 0
}
