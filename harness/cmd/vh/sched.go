package main

// vh sched: schedules printed by TLC for spec/Conc.tla (one JSON object per line: universe, n, pre, ops, sched) are
// forced on the real code.  Every caller of the batch runs in its own goroutine; a caller that reaches a verif hook
// point (members.add.mid, members.remove.mid; assign.validated, random.validated for the bare seat manager) parks
// there until the schedule gives it its next step.  A step whose caller neither parks nor returns within the grace
// period is waiting for a lock another caller holds: the schedule is infeasible in the code ("blocked" -- what the lock
// is for); everybody is then released and the batch runs to its end.  Either way the recorded results and the final state
// go to ConcTrace as an ordinary batch line, and TLC searches the serial order that explains them.

import (
	"bufio"
	"encoding/json"
	"flag"
	"fmt"
	"os"
	"runtime"
	"strconv"
	"strings"
	"sync"
	"sync/atomic"
	"syscall"
	"time"

	pt "github.com/weedbox/pokertable"
	sm "github.com/weedbox/pokertable/seat_manager"
)

func init() { commands["sched"] = cmdSched }

type schedJoin struct {
	ID    string `json:"id"`
	Seat  int    `json:"seat"`
	Chips int64  `json:"chips"`
}
type schedOp struct {
	Op    string      `json:"op"`
	ID    string      `json:"id"`
	Seat  int         `json:"seat"`
	Chips int64       `json:"chips"`
	IDs   []string    `json:"ids"`
	Joins []schedJoin `json:"joins"`
	Pairs []schedJoin `json:"pairs"`
}
type schedIn struct {
	Universe string      `json:"universe"`
	N        int         `json:"n"`
	Pre      []schedJoin `json:"pre"`
	Ops      []schedOp   `json:"ops"`
	Sched    []int       `json:"sched"`
}

func curGID() int64 {
	var buf [64]byte
	n := runtime.Stack(buf[:], false)
	f := strings.Fields(string(buf[:n]))
	if len(f) < 2 {
		return -1
	}
	id, _ := strconv.ParseInt(f[1], 10, 64)
	return id
}

type schedProc struct {
	started, parked, finished bool
	parkCh                    chan string
	goCh                      chan struct{}
	done                      chan struct{}
}

func cmdSched(args []string) int {
	fs := flag.NewFlagSet("sched", flag.ExitOnError)
	in := fs.String("in", "", "schedules (ndjson, as printed by Conc.tla)")
	out := fs.String("out", "", "output ndjson")
	graceMs := fs.Int("grace", 40, "ms a step may take before its caller counts as blocked")
	fs.Parse(args)
	fin, err := os.Open(*in)
	if err != nil {
		fmt.Fprintln(os.Stderr, err)
		return 2
	}
	f, err := os.Create(*out)
	if err != nil {
		fmt.Fprintln(os.Stderr, err)
		return 2
	}
	w := bufio.NewWriterSize(f, 1<<20)
	enc := json.NewEncoder(w)
	realOut, _ := syscall.Dup(1)
	null, _ := os.OpenFile(os.DevNull, os.O_WRONLY, 0)
	syscall.Dup2(int(null.Fd()), 1)
	emit := func(l concLine) {
		for i := range l.Ops {
			if l.Ops[i].IDs == nil {
				l.Ops[i].IDs = []string{}
			}
			if l.Ops[i].Joins == nil {
				l.Ops[i].Joins = [][]interface{}{}
			}
			if l.Ops[i].Map == nil {
				l.Ops[i].Map = map[string]int{}
			}
		}
		enc.Encode(l)
	}
	rec := &Recorder{gids: map[string]int{}, upds: map[int64]int{}}
	rec.w, rec.enc = bufio.NewWriter(null), json.NewEncoder(null)
	blankP := rec.project(nil, nil)
	grace := time.Duration(*graceMs) * time.Millisecond
	nsc, nblocked, nran, ndiverged, nhang := 0, 0, 0, 0, 0
	sc := bufio.NewScanner(fin)
	sc.Buffer(make([]byte, 1<<20), 1<<24)
	for sc.Scan() {
		var s schedIn
		if json.Unmarshal(sc.Bytes(), &s) != nil || len(s.Ops) == 0 {
			continue
		}
		nsc++
		isSM := s.Universe == "sm"
		ops := make([]concOp, len(s.Ops))
		for i, o := range s.Ops {
			ops[i] = concOp{Op: o.Op, ID: o.ID, Seat: o.Seat, Chips: o.Chips, IDs: o.IDs}
			for _, j := range o.Joins {
				ops[i].Joins = append(ops[i].Joins, []interface{}{j.ID, j.Seat, int(j.Chips)})
			}
			if o.Op == "assign" {
				ops[i].Map = map[string]int{}
				for _, p := range o.Pairs {
					ops[i].Map[p.ID] = p.Seat
				}
			}
		}
		// ---- the state before the batch
		var te pt.TableEngine
		var d *TD
		var m sm.SeatManager
		var preP PState
		var preS SMState
		if isSM {
			m = sm.NewSeatManager(s.N, "default")
			for _, p := range s.Pre {
				m.AssignSeats(map[string]int{p.ID: p.Seat})
			}
			preS = projectSM(m, s.N, "default")
		} else {
			scn := &Scenario{Seed: int64(nsc), N: s.N, Mode: "ct", Rule: "default", MinPlayers: 2, Blind: []int64{1, 0, 0, 1, 2}}
			d = NewTD(rec, scn)
			te = d.te
			te.CreateTable(pt.TableSetting{TableID: fmt.Sprintf("s%d", nsc), Meta: pt.TableMeta{CompetitionID: "c", Rule: "default", Mode: "ct", MaxDuration: 1000000,
				TableMaxSeatCount: s.N, TableMinPlayerCount: 2, MinChipUnit: 1, ActionTime: 10}, Blind: pt.TableBlindState{Level: 1, SB: 1, BB: 2}})
			for _, p := range s.Pre {
				te.PlayerReserve(pt.JoinPlayer{PlayerID: p.ID, RedeemChips: 1, Seat: p.Seat})
			}
			preP = rec.project(te, nil)
		}
		// ---- callers and the parking hook
		procs := make([]*schedProc, len(ops))
		for i := range procs {
			procs[i] = &schedProc{parkCh: make(chan string, 1), goCh: make(chan struct{}, 1), done: make(chan struct{})}
		}
		var gmu sync.Mutex
		byGID := map[int64]*schedProc{}
		var freeRun atomic.Bool
		park := func(point string) {
			if freeRun.Load() {
				return
			}
			gmu.Lock()
			p := byGID[curGID()]
			gmu.Unlock()
			if p == nil {
				return
			}
			p.parkCh <- point
			<-p.goCh
		}
		if isSM {
			sm.VerifHook = func(_ sm.SeatManager, point string) {
				if point == "assign.validated" || point == "random.validated" {
					park(point)
				}
			}
		} else {
			pt.VerifSetHook(te, func(point string) {
				if point == "members.add.mid" || point == "members.remove.mid" {
					park(point)
				}
			})
		}
		start := func(i int) {
			p := procs[i]
			p.started = true
			go func() {
				gmu.Lock()
				byGID[curGID()] = p
				gmu.Unlock()
				o := &ops[i]
				switch o.Op {
				case "reserve":
					o.Res = errNameT(te.PlayerReserve(pt.JoinPlayer{PlayerID: o.ID, RedeemChips: o.Chips, Seat: o.Seat}))
				case "leave":
					o.Res = errNameT(te.PlayersLeave(o.IDs))
				case "update":
					jp := []pt.JoinPlayer{}
					for _, jn := range o.Joins {
						jp = append(jp, pt.JoinPlayer{PlayerID: jn[0].(string), Seat: jn[1].(int), RedeemChips: int64(jn[2].(int))})
					}
					_, err := te.UpdateTablePlayers(jp, o.IDs)
					o.Res = errNameT(err)
				case "assign":
					o.Res = errName(m.AssignSeats(o.Map))
				case "random":
					o.Res = errName(m.RandomAssignSeats(o.IDs))
				}
				close(p.done)
			}()
		}
		note := "ran"
		for k, pi := range s.Sched {
			if pi < 1 || pi > len(procs) {
				continue
			}
			p := procs[pi-1]
			if p.finished {
				note = "diverged" // the model gave this caller one step more than the code has hook points on this path
				continue
			}
			if !p.started {
				start(pi - 1)
			} else if p.parked {
				p.parked = false
				p.goCh <- struct{}{}
			}
			blocked := false
			select {
			case <-p.parkCh:
				p.parked = true
			case <-p.done:
				p.finished = true
			case <-time.After(grace):
				blocked = true
			}
			if blocked {
				note = fmt.Sprintf("blocked@%d", k+1)
				break
			}
		}
		// ---- everybody runs to the end
		freeRun.Store(true)
		for _, p := range procs {
			if p.started && !p.finished {
				select {
				case p.goCh <- struct{}{}:
				default:
				}
			}
		}
		for i, p := range procs {
			if !p.started {
				start(i)
			}
		}
		hang := false
		for _, p := range procs {
			if p.finished {
				continue
			}
			select {
			case <-p.done:
			case <-p.parkCh: // parked in the very moment free running was switched on
				p.goCh <- struct{}{}
				select {
				case <-p.done:
				case <-time.After(10 * time.Second):
					hang = true
				}
			case <-time.After(10 * time.Second):
				hang = true
			}
		}
		switch {
		case hang:
			nhang++
		case strings.HasPrefix(note, "blocked"):
			nblocked++
		case note == "diverged":
			ndiverged++
		default:
			nran++
		}
		line := concLine{Tr: nsc, N: 1, Procs: runtime.GOMAXPROCS(0), Ops: ops, Pre: blankP, St: blankP, SMPre: emptySM(), SMSt: emptySM(), Note: "model:" + note}
		if isSM {
			sm.VerifHook = nil
			line.Ev = "smbatch"
			line.SMPre, line.SMSt = preS, projectSM(m, s.N, "default")
		} else {
			pt.VerifSetHook(te, nil)
			time.Sleep(300 * time.Microsecond)
			line.Ev = "batch"
			line.Pre, line.St = preP, rec.project(te, nil)
			d.hmu.Lock()
			d.dead = true
			d.hmu.Unlock()
		}
		if hang {
			line.Ev, line.Note, line.Sig = "hang", "a call of a forced schedule did not return", hangSignature()
			emit(line)
			break // the engine lock may be held for ever: stop here, the line is judged
		}
		emit(line)
	}
	w.Flush()
	f.Close()
	syscall.Dup2(realOut, 1)
	fmt.Fprintf(os.NewFile(uintptr(realOut), "stdout"), "{\"scenarios\":%d,\"blocked\":%d,\"ran\":%d,\"diverged\":%d,\"hang\":%d}\n", nsc, nblocked, nran, ndiverged, nhang)
	return 0
}
