package main

import (
	"bufio"
	"encoding/json"
	"flag"
	"fmt"
	"math/rand"
	"os"
	"runtime"
	"sort"
	"sync"
	"sync/atomic"
	"time"

	ogm "github.com/weedbox/pokertable/open_game_manager"
)

func init() { commands["gate"] = cmdGate }

type gateLine struct {
	Tr    int             `json:"tr"`
	N     int             `json:"n"`
	Ev    string          `json:"ev"` // setup | ready | fire | sleep | restore | end
	T     int64           `json:"t"`  // microseconds since the trace began
	Gate  string          `json:"gate"` // "A" original, "B" rebuilt from a saved state
	Gc    int             `json:"gc"`
	IDs   []string        `json:"ids"`
	ID    string          `json:"id"`
	Res   string          `json:"res"`
	Parts [][]interface{} `json:"parts"` // state after the call / reported by the callback: [id, idx, ready]
	SGc   int             `json:"sgc"`
	Seq   int             `json:"seq"` // which set-up of this trace the line belongs to (carried in the participants' indexes: idx / 100)
	Mode  string          `json:"mode"`
	TOms  int64           `json:"toms"`
}

type gateRec struct {
	mu  sync.Mutex
	enc *json.Encoder
	tr  int
	n   int
	t0  time.Time
	mode string
	toms int64
	seq  int // the set-up being announced (setupcall lines carry no state)
}

func (r *gateRec) emit(ev, gate string, gc int, ids []string, id, res string, st ogm.OpenGameState) {
	r.mu.Lock()
	defer r.mu.Unlock()
	r.n++
	l := gateLine{Tr: r.tr, N: r.n, Ev: ev, T: time.Since(r.t0).Microseconds(), Gate: gate, Gc: gc, IDs: ids, ID: id, Res: res,
		Parts: [][]interface{}{}, SGc: st.GameCount, Mode: r.mode, TOms: r.toms}
	if l.IDs == nil {
		l.IDs = []string{}
	}
	keys := []string{}
	l.Seq = -1
	for k, p := range st.Participants {
		keys = append(keys, k)
		l.Seq = p.Index / 100
	}
	if ev == "setupcall" {
		l.Seq = r.seq
	}
	sort.Strings(keys)
	for _, k := range keys {
		p := st.Participants[k]
		l.Parts = append(l.Parts, []interface{}{p.ID, p.Index, p.IsReady})
	}
	r.enc.Encode(l)
}

func copyState(st ogm.OpenGameState) ogm.OpenGameState {
	c := ogm.OpenGameState{Timeout: st.Timeout, GameCount: st.GameCount, Participants: map[string]*ogm.OpenGameParticipant{}}
	for k, p := range st.Participants {
		q := *p
		c.Participants[k] = &q
	}
	return c
}

// cmdGate drives the REAL open-game manager with seeded scenarios:
//   mode "calm":  the driver lets the gate's goroutines drain (1-2 ms) between calls: call-granularity behaviour
//   mode "racy":  calls are issued back to back (optionally GOMAXPROCS(1)): re-set-up with signals still in flight
//   mode "restore": after a prefix the gate is rebuilt from its saved state; original and copy get the same suffix
func cmdGate(args []string) int {
	fs := flag.NewFlagSet("gate", flag.ExitOnError)
	from := fs.Int64("from", 1, "first seed")
	count := fs.Int("count", 20, "scenarios")
	mode := fs.String("mode", "calm", "calm | racy | restore")
	out := fs.String("out", "", "output ndjson")
	procs := fs.Int("procs", 0, "GOMAXPROCS (0 = leave)")
	fs.Parse(args)
	if *procs > 0 {
		runtime.GOMAXPROCS(*procs)
	}
	f, err := os.Create(*out)
	if err != nil {
		fmt.Fprintln(os.Stderr, err)
		return 2
	}
	w := bufio.NewWriterSize(f, 1<<20)
	rec := &gateRec{enc: json.NewEncoder(w), mode: *mode}
	lines := 0
	for i := 0; i < *count; i++ {
		seed := *from + int64(i)
		finished := make(chan bool, 1)
		go func() {
			select {
			case <-finished:
			case <-time.After(25 * time.Second):
				// a call into the gate did not return (the ready group can deadlock when a set-up overlaps its consumer)
				rec.emit("hang", "A", 0, nil, "", "", ogm.OpenGameState{})
				w.Flush()
				f.Close()
				fmt.Printf("{\"scenarios\":%d,\"lines\":%d,\"hung\":1}\n", i, lines)
				os.Exit(0)
			}
		}()
		r := rand.New(rand.NewSource(seed*31 + 7))
		rec.mu.Lock()
		rec.tr, rec.n, rec.t0, rec.toms = int(seed), 0, time.Now(), 1000
		rec.mu.Unlock()
		var firesA int64
		mk := func(name string) (ogm.OpenGameManager, ogm.OpenGameOption) {
			opt := ogm.OpenGameOption{Timeout: 1}
			opt.OnOpenGameReady = func(st ogm.OpenGameState) {
				atomic.AddInt64(&firesA, 1)
				rec.emit("fire", name, st.GameCount, nil, "", "", copyState(st))
			}
			return ogm.NewOpenGameManager(opt), opt
		}
		gA, _ := mk("A")
		gates := map[string]ogm.OpenGameManager{"A": gA}
		pause := func() {
			if *mode != "racy" {
				time.Sleep(time.Duration(1500+r.Intn(1500)) * time.Microsecond)
			}
		}
		ids := []string{"a", "b", "c", "d"}
		gc := 0
		seq := 0
		doSetup := func() {
			if gc == 0 || r.Intn(4) != 0 {
				gc++ // (otherwise: a re-set-up for the same game count, e.g. the line-up changed before the hand opened)
			}
			seq++
			rec.mu.Lock()
			rec.seq = seq
			rec.mu.Unlock()
			k := 1 + r.Intn(4)
			perm := r.Perm(4)
			parts := map[string]int{}
			names := []string{}
			for _, j := range perm[:k] {
				parts[ids[j]] = 100*seq + j + 10*r.Intn(2) // indexes need not be dense; the hundreds name the set-up
				names = append(names, ids[j])
			}
			sort.Strings(names)
			atomic.StoreInt64(&firesA, 0)
			for name, g := range gates {
				rec.emit("setupcall", name, gc, names, "", "", ogm.OpenGameState{})
				g.Setup(gc, parts)
				rec.emit("setup", name, gc, names, "", "ok", copyState(g.GetState()))
			}
		}
		doReady := func(id string) {
			for name, g := range gates {
				rec.emit("readycall", name, 0, nil, id, "", ogm.OpenGameState{})
				err := g.Ready(id)
				res := "ok"
				if err != nil {
					res = "ErrParticipantNotFound"
					if err != ogm.ErrParticipantNotFound {
						res = "err:" + err.Error()
					}
				}
				rec.emit("ready", name, 0, nil, id, res, copyState(g.GetState()))
			}
		}
		steps := 4 + r.Intn(10)
		doSetup()
		pause()
		restored := false
		for s := 0; s < steps; s++ {
			x := r.Intn(100)
			switch {
			case x < 55:
				id := ids[r.Intn(4)]
				if r.Intn(10) == 0 {
					id = "zz"
				}
				doReady(id)
			case x < 75:
				doSetup()
			case x < 82 && *mode != "racy":
				time.Sleep(1100 * time.Millisecond) // let the timeout expire
				rec.emit("sleep", "A", 0, nil, "", "", copyState(gA.GetState()))
			case x < 92 && *mode == "restore" && !restored && (atomic.LoadInt64(&firesA) == 0 || r.Intn(2) == 0):
				// (also from a state saved after the set-up has fired: the copy, like the original, must not fire it again)
				// rebuild a second gate from the saved state of the first
				pause()
				saved := copyState(gA.GetState())
				opt := ogm.OpenGameOption{Timeout: 1}
				opt.OnOpenGameReady = func(st ogm.OpenGameState) { rec.emit("fire", "B", st.GameCount, nil, "", "", copyState(st)) }
				gB := ogm.NewOpenGameManagerFromState(saved, opt)
				gates["B"] = gB
				restored = true
				rec.emit("restore", "B", saved.GameCount, nil, "", "ok", copyState(gB.GetState()))
			default:
				// all remaining participants signal
				st := gA.GetState()
				names := []string{}
				for k := range st.Participants {
					names = append(names, k)
				}
				sort.Strings(names)
				for _, k := range names {
					doReady(k)
				}
			}
			pause()
		}
		// quiescence: longer than the timeout after the last set-up
		time.Sleep(1250 * time.Millisecond)
		for name, g := range gates {
			rec.emit("end", name, gc, nil, "", "", copyState(g.GetState()))
		}
		lines += rec.n
		w.Flush()
		finished <- true
	}
	w.Flush()
	f.Close()
	fmt.Printf("{\"scenarios\":%d,\"lines\":%d}\n", *count, lines)
	return 0
}
