package main

import (
	"bufio"
	"encoding/json"
	"flag"
	"fmt"
	"os"
	"strconv"
	"strings"

	"github.com/weedbox/pokerface"
	pt "github.com/weedbox/pokertable"
)

func init() {
	commands["hand-dfs"] = cmdHandDFS
}

type handLine struct {
	Tr   int    `json:"tr"`
	From PHand  `json:"from"`
	Act  string `json:"act"`
	N    int64  `json:"n"`
	Res  string `json:"res"`
	To   PHand  `json:"to"`
}

var labelLayouts = map[string][][]string{
	"std2":     {{"dealer", "sb"}, {"bb"}},
	"std3":     {{"dealer"}, {"sb"}, {"bb"}},
	"std4":     {{"dealer"}, {"sb"}, {"bb"}, {"ug"}},
	"std5":     {{"dealer"}, {"sb"}, {"bb"}, {"ug"}, {"co"}},
	"deadsb3":  {{"dealer"}, {"bb"}, {"ug"}},
	"deadbtn3": {{"sb", "dealer"}, {"bb"}, {"ug"}},
	"deadbtn4": {{"sb", "dealer"}, {"bb"}, {"ug"}, {"co"}},
	"twodealer": {{"co", "dealer"}, {"dealer"}, {"sb"}, {"bb"}},
}

// cmdHandDFS explores the whole transition system of the REAL game backend (NativeGameBackend over pokerface)
// for one configuration: every allowed action and every amount at every reachable hand state.
func cmdHandDFS(args []string) int {
	fs := flag.NewFlagSet("hand-dfs", flag.ExitOnError)
	layout := fs.String("layout", "std3", "label layout")
	stacksS := fs.String("stacks", "3,4,2", "stacks, comma separated; several vectors separated by ';'")
	blinds := fs.String("blinds", "0,0,1,2", "ante,dealer,sb,bb")
	decks := fs.String("decks", "rand", "comma list of deck modes: rand, or strength vectors like 0-1-2 / tieall")
	out := fs.String("out", "", "output ndjson")
	tr0 := fs.Int("tr", 1, "first trace id")
	fs.Parse(args)
	f, err := os.Create(*out)
	if err != nil {
		fmt.Fprintln(os.Stderr, err)
		return 2
	}
	w := bufio.NewWriterSize(f, 1<<20)
	enc := json.NewEncoder(w)
	var bl []int64
	for _, x := range strings.Split(*blinds, ",") {
		v, _ := strconv.ParseInt(x, 10, 64)
		bl = append(bl, v)
	}
	labels := labelLayouts[*layout]
	rec := &Recorder{gids: map[string]int{}, upds: map[int64]int{}}
	be := pt.NewNativeGameBackend()
	lines, states, tr := 0, 0, *tr0
	for _, sv := range strings.Split(*stacksS, ";") {
		var stacks []int64
		for _, x := range strings.Split(sv, ",") {
			v, _ := strconv.ParseInt(x, 10, 64)
			stacks = append(stacks, v)
		}
		for _, dm := range strings.Split(*decks, ",") {
			opts := pokerface.NewStardardGameOptions()
			opts.Deck = pokerface.NewStandardDeckCards()
			opts.Ante = bl[0]
			opts.Blind = pokerface.BlindSetting{Dealer: bl[1], SB: bl[2], BB: bl[3]}
			for i := range stacks {
				opts.Players = append(opts.Players, &pokerface.PlayerSetting{Bankroll: stacks[i], Positions: labels[i]})
			}
			gs, err := be.CreateGame(opts)
			if err != nil {
				fmt.Fprintln(os.Stderr, "create:", err)
				return 2
			}
			if dm == "tieall" {
				gs.Meta.Deck = stackDeckTieAll(len(stacks))
			} else if dm != "rand" {
				var st []int
				for _, x := range strings.Split(dm, "-") {
					v, _ := strconv.Atoi(x)
					st = append(st, v)
				}
				if d := stackDeck(st[:len(stacks)]); d != nil {
					gs.Meta.Deck = d
				}
			}
			seen := map[string]bool{}
			stack := []*pokerface.GameState{gs}
			key := func(h PHand) string { h.Gid, h.Upd = 0, 0; b, _ := json.Marshal(h); return string(b) }
			for len(stack) > 0 {
				g := stack[len(stack)-1]
				stack = stack[:len(stack)-1]
				from := rec.projectHand(g)
				from.Gid, from.Upd = 0, 0
				k := key(from)
				if seen[k] {
					continue
				}
				seen[k] = true
				states++
				step := func(a string, n int64, fn func() (*pokerface.GameState, error)) {
					ng, err := fn()
					res := "ok"
					to := from
					if err != nil {
						res = "err:" + err.Error()
					} else {
						to = rec.projectHand(ng)
						to.Gid, to.Upd = 0, 0
						stack = append(stack, ng)
					}
					enc.Encode(handLine{Tr: tr, From: from, Act: a, N: n, Res: res, To: to})
					lines++
				}
				switch g.Status.CurrentEvent {
				case "ReadyRequested":
					step("readyall", 0, func() (*pokerface.GameState, error) { return be.ReadyForAll(g) })
				case "AnteRequested":
					step("ante", 0, func() (*pokerface.GameState, error) { return be.PayAnte(g) })
				case "BlindsRequested":
					step("blinds", 0, func() (*pokerface.GameState, error) { return be.PayBlinds(g) })
				case "RoundClosed":
					step("next", 0, func() (*pokerface.GameState, error) { return be.Next(g) })
				case "RoundStarted":
					p := g.Players[g.Status.CurrentPlayer]
					for _, a := range p.AllowedActions {
						switch a {
						case "fold":
							step(a, 0, func() (*pokerface.GameState, error) { return be.Fold(g) })
						case "check":
							step(a, 0, func() (*pokerface.GameState, error) { return be.Check(g) })
						case "pass":
							step(a, 0, func() (*pokerface.GameState, error) { return be.Pass(g) })
						case "call":
							step(a, 0, func() (*pokerface.GameState, error) { return be.Call(g) })
						case "allin":
							step(a, 0, func() (*pokerface.GameState, error) { return be.Allin(g) })
						case "bet":
							for c := int64(1); c <= p.InitialStackSize; c++ {
								cc := c
								step(a, cc, func() (*pokerface.GameState, error) { return be.Bet(g, cc) })
							}
						case "raise":
							for l := g.Status.CurrentWager + 1; l <= p.InitialStackSize; l++ {
								ll := l
								step(a, ll, func() (*pokerface.GameState, error) { return be.Raise(g, ll) })
							}
						}
					}
				}
			}
			tr++
		}
	}
	w.Flush()
	f.Close()
	fmt.Printf("{\"states\":%d,\"lines\":%d}\n", states, lines)
	return 0
}
