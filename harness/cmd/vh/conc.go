package main

import (
	"bufio"
	"encoding/json"
	"flag"
	"fmt"
	"math/rand"
	"os"
	"runtime"
	"sort"
	"sync"
	"syscall"
	"time"

	pt "github.com/weedbox/pokertable"
	sm "github.com/weedbox/pokertable/seat_manager"
)

func init() { commands["conc"] = cmdConc }

// one batch of calls issued at the same time from as many goroutines
type concOp struct {
	Op    string          `json:"op"` // reserve | leave | update | assign | random | act
	ID    string          `json:"id"`
	IDs   []string        `json:"ids"`
	Seat  int             `json:"seat"`
	Chips int64           `json:"chips"`
	Joins [][]interface{} `json:"joins"`
	Map   map[string]int  `json:"map"`
	Kind  string          `json:"kind"`
	Res   string          `json:"res"`
}

type concLine struct {
	Tr    int      `json:"tr"`
	N     int      `json:"n"`
	Ev    string   `json:"ev"` // batch | smbatch | actbatch | blocked | end
	Procs int      `json:"procs"`
	Ops   []concOp `json:"ops"`
	Pre   PState   `json:"pre"`
	St    PState   `json:"st"`
	SMPre SMState  `json:"smpre"`
	SMSt  SMState  `json:"smst"`
	Note  string   `json:"note"`
	Sig   string   `json:"sig"` // hang / crash: what the goroutine stacks (or the panic message) identify, "" if nothing known
	Acc   int      `json:"acc"` // actbatch: accepted actions
	Mover string   `json:"mover"`
}

func emptySM() SMState { return SMState{Seat: []interface{}{}} }

func cmdConc(args []string) int {
	fs := flag.NewFlagSet("conc", flag.ExitOnError)
	from := fs.Int64("from", 1, "first seed")
	count := fs.Int("count", 10, "scenarios")
	procs := fs.Int("procs", 0, "GOMAXPROCS (0 = leave)")
	out := fs.String("out", "", "output ndjson")
	fs.Parse(args)
	if *procs > 0 {
		runtime.GOMAXPROCS(*procs)
	}
	f, err := os.Create(*out)
	if err != nil {
		fmt.Fprintln(os.Stderr, err)
		return 2
	}
	w := bufio.NewWriterSize(f, 1<<20)
	enc := json.NewEncoder(w)
	realOut, _ := syscall.Dup(1)
	null, _ := os.OpenFile(os.DevNull, os.O_WRONLY, 0)
	syscall.Dup2(int(null.Fd()), 1)
	lines := 0
	emit := func(l concLine) {
		if l.Ops == nil {
			l.Ops = []concOp{}
		}
		for i := range l.Ops {
			if l.Ops[i].IDs == nil {
				l.Ops[i].IDs = []string{}
			}
			if l.Ops[i].Joins == nil {
				l.Ops[i].Joins = [][]interface{}{}
			}
			if l.Ops[i].Map == nil {
				l.Ops[i].Map = map[string]int{}
			}
		}
		enc.Encode(l)
		lines++
	}
	rec := &Recorder{gids: map[string]int{}, upds: map[int64]int{}}
	blankP := rec.project(nil, nil)
	for i := 0; i < *count; i++ {
		seed := *from + int64(i)
		scenDone := make(chan struct{})
		go func(i int) {
			select {
			case <-scenDone:
			case <-time.After(90 * time.Second):
				emit(concLine{Tr: int(seed), N: 9999, Ev: "hang", Procs: runtime.GOMAXPROCS(0), Pre: blankP, St: blankP, SMPre: emptySM(), SMSt: emptySM(), Note: "a concurrent scenario made no progress for 90 s", Sig: hangSignature()})
				w.Flush()
				syscall.Dup2(realOut, 1)
				fmt.Fprintf(os.NewFile(uintptr(realOut), "stdout"), "{\"scenarios\":%d,\"lines\":%d,\"hung\":1}\n", i, lines)
				os.Exit(0)
			}
		}(i)
		r := rand.New(rand.NewSource(seed*131 + 3))
		n := 2 + r.Intn(9)
		nline := 0
		// ---------------- (b) bare seat manager: concurrent assignments never double-book
		for b := 0; b < 3; b++ {
			m := sm.NewSeatManager(n, "default")
			restore := func() {}
			k := 2 + r.Intn(7)
			ops := make([]concOp, k)
			for j := range ops {
				id := fmt.Sprintf("s%d", j)
				if r.Intn(2) == 0 {
					ops[j] = concOp{Op: "assign", Map: map[string]int{id: r.Intn(n)}}
				} else {
					ops[j] = concOp{Op: "random", IDs: []string{id}}
				}
			}
			pre := projectSM(m, n, "default")
			var wg sync.WaitGroup
			start := make(chan struct{})
			for j := range ops {
				wg.Add(1)
				go func(j int) {
					defer wg.Done()
					<-start
					if ops[j].Op == "assign" {
						ops[j].Res = errName(m.AssignSeats(ops[j].Map))
					} else {
						ops[j].Res = errName(m.RandomAssignSeats(ops[j].IDs))
					}
				}(j)
			}
			close(start)
			wg.Wait()
			restore()
			nline++
			emit(concLine{Tr: int(seed), N: nline, Ev: "smbatch", Procs: runtime.GOMAXPROCS(0), Ops: ops, Pre: blankP, St: blankP, SMPre: pre, SMSt: projectSM(m, n, "default")})
		}
		// ---------------- (a) membership operations on a table
		sc := &Scenario{Seed: seed, N: n, Mode: "ct", Rule: "default", MinPlayers: 2, Blind: []int64{1, 0, 0, 1, 2}}
		d := NewTD(rec, sc)
		rec.w, rec.enc = bufio.NewWriter(null), json.NewEncoder(null) // the table recorder is not used here
		d.te.CreateTable(pt.TableSetting{TableID: fmt.Sprintf("c%d", seed), Meta: pt.TableMeta{CompetitionID: "c", Rule: "default", Mode: "ct", MaxDuration: 1000000,
			TableMaxSeatCount: n, TableMinPlayerCount: 2, MinChipUnit: 1, ActionTime: 10}, Blind: pt.TableBlindState{Level: 1, SB: 1, BB: 2}})
		te := d.te
		next := 0
		seated := []string{}
		for b := 0; b < 4; b++ {
			k := 2 + r.Intn(5)
			ops := make([]concOp, 0, k)
			for j := 0; j < k; j++ {
				x := r.Intn(10)
				switch {
				case x < 6 || len(seated) == 0:
					next++
					seat := -1
					if r.Intn(2) == 0 {
						seat = r.Intn(n)
					}
					ops = append(ops, concOp{Op: "reserve", ID: fmt.Sprintf("p%d", next), Seat: seat, Chips: int64(1 + r.Intn(9))})
				case x < 8:
					ops = append(ops, concOp{Op: "leave", IDs: []string{seated[r.Intn(len(seated))]}})
				case x < 9:
					ops = append(ops, concOp{Op: "reserve", ID: seated[r.Intn(len(seated))], Seat: -1, Chips: int64(1 + r.Intn(5))}) // re-buy
				default:
					next++
					if len(seated) >= 2 && r.Intn(2) == 0 {
						// two batch updates that collide: each lets one seated player go and brings a newcomer to the SAME seat
						seat := r.Intn(n)
						i1 := r.Intn(len(seated))
						i2 := (i1 + 1 + r.Intn(len(seated)-1)) % len(seated)
						ops = append(ops, concOp{Op: "update", IDs: []string{seated[i1]}, Joins: [][]interface{}{{fmt.Sprintf("p%d", next), seat, 3}}})
						next++
						ops = append(ops, concOp{Op: "update", IDs: []string{seated[i2]}, Joins: [][]interface{}{{fmt.Sprintf("p%d", next), seat, 4}}})
					} else {
						ops = append(ops, concOp{Op: "update", Joins: [][]interface{}{{fmt.Sprintf("p%d", next), -1, 3}}})
					}
				}
			}
			pre := rec.project(te, nil)
			var wg sync.WaitGroup
			start := make(chan struct{})
			for j := range ops {
				wg.Add(1)
				go func(j int) {
					defer wg.Done()
					<-start
					o := &ops[j]
					switch o.Op {
					case "reserve":
						o.Res = errNameT(te.PlayerReserve(pt.JoinPlayer{PlayerID: o.ID, RedeemChips: o.Chips, Seat: o.Seat}))
					case "leave":
						o.Res = errNameT(te.PlayersLeave(o.IDs))
					case "update":
						jp := []pt.JoinPlayer{}
						for _, jn := range o.Joins {
							jp = append(jp, pt.JoinPlayer{PlayerID: jn[0].(string), Seat: jn[1].(int), RedeemChips: int64(jn[2].(int))})
						}
						_, err := te.UpdateTablePlayers(jp, o.IDs)
						o.Res = errNameT(err)
					}
				}(j)
			}
			close(start)
			done := make(chan struct{})
			go func() { wg.Wait(); close(done) }()
			select {
			case <-done:
			case <-time.After(20 * time.Second):
				nline++
				emit(concLine{Tr: int(seed), N: nline, Ev: "hang", Procs: runtime.GOMAXPROCS(0), Ops: ops, Pre: pre, St: blankP, SMPre: emptySM(), SMSt: emptySM(), Note: "a membership call did not return", Sig: hangSignature()})
				w.Flush()
				os.Exit(0)
			}
			time.Sleep(300 * time.Microsecond)
			st := rec.project(te, nil)
			nline++
			emit(concLine{Tr: int(seed), N: nline, Ev: "batch", Procs: runtime.GOMAXPROCS(0), Ops: ops, Pre: pre, St: st, SMPre: emptySM(), SMSt: emptySM()})
			seated = seated[:0]
			for _, p := range st.Players {
				seated = append(seated, p.ID)
			}
			sort.Strings(seated)
		}
		// ---------------- (d) forced schedules: the first call is parked inside its critical section (verif hook point),
		// the second is issued meanwhile; with the engine lock in place the second simply waits
		for b := 0; b < 4; b++ {
			st0 := rec.project(te, nil)
			free := []int{}
			for sidx, v := range st0.SeatMap {
				if v < 0 {
					free = append(free, sidx)
				}
			}
			var opA, opB concOp
			point := "members.add.mid"
			next += 2
			idA, idB := fmt.Sprintf("p%d", next-1), fmt.Sprintf("p%d", next)
			switch {
			case len(free) >= 1 && r.Intn(3) == 0: // both want the same seat
				opA = concOp{Op: "reserve", ID: idA, Seat: free[0], Chips: 4}
				opB = concOp{Op: "reserve", ID: idB, Seat: free[0], Chips: 5}
			case len(free) >= 1 && r.Intn(2) == 0: // the last seats go
				opA = concOp{Op: "reserve", ID: idA, Seat: -1, Chips: 4}
				opB = concOp{Op: "reserve", ID: idB, Seat: -1, Chips: 5}
			case len(seated) > 1 && r.Intn(2) == 0: // an earlier-seated player departs while a later-seated one re-buys
				opA = concOp{Op: "leave", IDs: []string{seated0(st0)}}
				opB = concOp{Op: "reserve", ID: seatedLast(st0), Seat: -1, Chips: 6}
				point = "members.remove.mid"
			case len(seated) > 0 && r.Intn(2) == 0: // a departure against a re-buy of the same player
				x := seated[r.Intn(len(seated))]
				opA = concOp{Op: "leave", IDs: []string{x}}
				opB = concOp{Op: "reserve", ID: x, Seat: -1, Chips: 3}
				point = "members.remove.mid"
			case len(seated) > 0: // the same player leaves twice
				x := seated[r.Intn(len(seated))]
				opA = concOp{Op: "leave", IDs: []string{x}}
				opB = concOp{Op: "leave", IDs: []string{x}}
				point = "members.remove.mid"
			default:
				opA = concOp{Op: "reserve", ID: idA, Seat: -1, Chips: 4}
				opB = concOp{Op: "reserve", ID: idB, Seat: -1, Chips: 5}
			}
			ops := []concOp{opA, opB}
			runOp := func(o *concOp) {
				switch o.Op {
				case "reserve":
					o.Res = errNameT(te.PlayerReserve(pt.JoinPlayer{PlayerID: o.ID, RedeemChips: o.Chips, Seat: o.Seat}))
				case "leave":
					o.Res = errNameT(te.PlayersLeave(o.IDs))
				}
			}
			parked := make(chan struct{}, 1)
			releaseCh := make(chan struct{})
			var once sync.Once
			pt.VerifSetHook(te, func(pn string) {
				if pn == point {
					first := false
					once.Do(func() { first = true })
					if first {
						parked <- struct{}{}
						select {
						case <-releaseCh:
						case <-time.After(5 * time.Second):
						}
					}
				}
			})
			doneA, doneB := make(chan struct{}), make(chan struct{})
			go func() { runOp(&ops[0]); close(doneA) }()
			select {
			case <-parked:
			case <-doneA:
			case <-time.After(2 * time.Second):
			}
			go func() { runOp(&ops[1]); close(doneB) }()
			note := "blocked"
			select {
			case <-doneB:
				note = "second-ran-while-first-parked"
			case <-time.After(25 * time.Millisecond):
			}
			close(releaseCh)
			<-doneA
			select {
			case <-doneB:
			case <-time.After(10 * time.Second):
				note = "hang"
			}
			pt.VerifSetHook(te, d.hook)
			time.Sleep(300 * time.Microsecond)
			st := rec.project(te, nil)
			nline++
			ev := "batch"
			if note == "hang" {
				ev = "hang"
			}
			emit(concLine{Tr: int(seed), N: nline, Ev: ev, Procs: runtime.GOMAXPROCS(0), Ops: ops, Pre: st0, St: st, SMPre: emptySM(), SMSt: emptySM(), Note: "forced:" + point + ":" + note})
			seated = seated[:0]
			for _, p := range st.Players {
				seated = append(seated, p.ID)
			}
			sort.Strings(seated)
		}
		d.hmu.Lock()
		d.dead = true
		d.hmu.Unlock()
		// ---------------- (c) game actions submitted simultaneously by everybody at every turn of a hand
		{
			sc2 := &Scenario{Seed: seed, N: 6, Mode: "ct", Rule: "default", MinPlayers: 2, Blind: []int64{1, 0, 0, 1, 2}}
			d2 := NewTD(rec, sc2)
			te2 := d2.te
			te2.CreateTable(pt.TableSetting{TableID: fmt.Sprintf("a%d", seed), Meta: pt.TableMeta{CompetitionID: "c", Rule: "default", Mode: "ct", MaxDuration: 1000000,
				TableMaxSeatCount: 6, TableMinPlayerCount: 2, MinChipUnit: 1, ActionTime: 10}, Blind: pt.TableBlindState{Level: 1, SB: 1, BB: 2}})
			np := 2 + r.Intn(4)
			ids := []string{}
			total := int64(0)
			for j := 0; j < np; j++ {
				id := fmt.Sprintf("q%d", j)
				ids = append(ids, id)
				c := int64(3 + r.Intn(20))
				total += c
				te2.PlayerReserve(pt.JoinPlayer{PlayerID: id, RedeemChips: c, Seat: -1})
			}
			for _, id := range ids {
				te2.PlayerJoin(id)
			}
			te2.StartTableGame()
			for _, id := range ids {
				d2.exec(Op{Op: "finish", ID: id})
			}
			d2.settle()
			te2.PlayerReserve(pt.JoinPlayer{PlayerID: "qout", RedeemChips: 7, Seat: -1}) // seated, never sits in
			total += 7
			kinds := []string{"fold", "check", "call", "allin", "bet", "raise", "pass"}
			submit := func(id, kind string, amt int64) error {
				switch kind {
				case "fold":
					return te2.PlayerFold(id)
				case "check":
					return te2.PlayerCheck(id)
				case "call":
					return te2.PlayerCall(id)
				case "allin":
					return te2.PlayerAllin(id)
				case "bet":
					return te2.PlayerBet(id, amt)
				case "raise":
					return te2.PlayerRaise(id, amt)
				case "pass":
					return te2.PlayerPass(id)
				case "ready":
					return te2.PlayerReady(id)
				case "pay":
					return te2.PlayerPay(id, amt)
				}
				return nil
			}
			for turn := 0; turn < 200; turn++ {
				t := te2.GetTable()
				gs := t.State.GameState
				if t.State.Status != pt.TableStateStatus_TableGamePlaying || gs == nil {
					break
				}
				callers := append(append([]string{}, ids...), "qout", "zz-stranger")
				var ops []concOp
				mover := ""
				switch gs.Status.CurrentEvent {
				case "ReadyRequested":
					for _, id := range callers {
						ops = append(ops, concOp{Op: "act", ID: id, Kind: "ready"})
					}
				case "AnteRequested", "BlindsRequested":
					for _, id := range callers {
						ops = append(ops, concOp{Op: "act", ID: id, Kind: "pay", Chips: 2})
					}
				case "RoundStarted":
					mover = d2.idOfGameIdx(gs.Status.CurrentPlayer)
					mk, ma := d2.chooseAction(&HandPlan{Policy: "rand"}, gs, 9999)
					for _, id := range callers {
						if id == mover {
							ops = append(ops, concOp{Op: "act", ID: id, Kind: mk, Chips: ma})
						} else {
							ops = append(ops, concOp{Op: "act", ID: id, Kind: kinds[r.Intn(len(kinds))], Chips: int64(1 + r.Intn(6))})
						}
						if r.Intn(3) == 0 { // the same caller twice
							ops = append(ops, concOp{Op: "act", ID: id, Kind: kinds[r.Intn(len(kinds))], Chips: int64(1 + r.Intn(6))})
						}
					}
				default:
					if d2.settle() != "" {
						turn = 1000
					}
					time.Sleep(200 * time.Microsecond)
					continue
				}
				pre := rec.project(te2, nil)
				var wg sync.WaitGroup
				start := make(chan struct{})
				for j := range ops {
					wg.Add(1)
					go func(j int) {
						defer wg.Done()
						<-start
						ops[j].Res = errNameT(submit(ops[j].ID, ops[j].Kind, ops[j].Chips))
					}(j)
				}
				close(start)
				wg.Wait()
				// bookkeeping the driver needs to know what to wait for
				if ops[0].Kind == "ready" || ops[0].Kind == "pay" {
					d2.hmu.Lock()
					d2.ansKey = gs.UpdatedAt
					d2.answered = map[int]bool{}
					for j := range ops {
						if ops[j].Res == "ok" {
							d2.answered[d2.gameIdxOf(ops[j].ID)] = true
						}
					}
					d2.hmu.Unlock()
				}
				d2.settle()
				acc := 0
				for j := range ops {
					if ops[j].Res == "ok" {
						acc++
					}
				}
				nline++
				if mover != "" {
					emit(concLine{Tr: int(seed), N: nline, Ev: "actbatch", Procs: runtime.GOMAXPROCS(0), Ops: ops, Pre: pre, St: rec.project(te2, nil), SMPre: emptySM(), SMSt: emptySM(), Acc: acc, Mover: mover})
				}
			}
			d2.settle()
			end := rec.project(te2, nil)
			nline++
			emit(concLine{Tr: int(seed), N: nline, Ev: "actend", Procs: runtime.GOMAXPROCS(0), Pre: blankP, St: end, SMPre: emptySM(), SMSt: emptySM(), Acc: int(total)})
			d2.hmu.Lock()
			d2.dead = true
			d2.hmu.Unlock()
		}
		close(scenDone)
	}
	w.Flush()
	f.Close()
	syscall.Dup2(realOut, 1)
	fmt.Fprintf(os.NewFile(uintptr(realOut), "stdout"), "{\"scenarios\":%d,\"lines\":%d}\n", *count, lines)
	return 0
}

func seated0(st PState) string    { return st.Players[0].ID }
func seatedLast(st PState) string { return st.Players[len(st.Players)-1].ID }
