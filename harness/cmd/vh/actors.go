package main

import (
	"bufio"
	"encoding/json"
	"flag"
	"fmt"
	"os"
	"strconv"
	"strings"
	"sync"
	"syscall"
	"time"

	"github.com/weedbox/pokerface"
	pt "github.com/weedbox/pokertable"
	"github.com/weedbox/pokertable/actor"
)

func init() { commands["actors"] = cmdActors }

// recAdapter is the Adapter a runner is wired to: it records what the runner submits.
type recAdapter struct {
	mu    sync.Mutex
	act   actor.Actor
	gs    *pokerface.GameState
	ids   []string
	calls [][]interface{} // [kind, amt, playerID, ms since delivery]
	t0    time.Time
	// judge, when set, plays the table: a call it refuses gets the error back and is not listed among the calls
	judge   func(kind string, amt int64, pid string) error
	refused int
}

func (r *recAdapter) SetActor(a actor.Actor) { r.act = a }
func (r *recAdapter) UpdateTableState(t *pt.Table) error {
	return r.act.UpdateTableState(t)
}
func (r *recAdapter) GetGamePlayerIndex(playerID string) int {
	for i, id := range r.ids {
		if id == playerID {
			return i
		}
	}
	return -1
}
func (r *recAdapter) GetGameState() *pokerface.GameState { return r.gs }
func (r *recAdapter) rec(kind string, amt int64, pid string) error {
	if r.judge != nil {
		if err := r.judge(kind, amt, pid); err != nil {
			r.mu.Lock()
			r.refused++
			r.mu.Unlock()
			return err
		}
	}
	r.mu.Lock()
	r.calls = append(r.calls, []interface{}{kind, amt, pid, time.Since(r.t0).Milliseconds()})
	r.mu.Unlock()
	return nil
}
func (r *recAdapter) Pass(p string) error               { return r.rec("pass", 0, p) }
func (r *recAdapter) Ready(p string) error              { return r.rec("ready", 0, p) }
func (r *recAdapter) Pay(p string, c int64) error       { return r.rec("pay", c, p) }
func (r *recAdapter) Check(p string) error              { return r.rec("check", 0, p) }
func (r *recAdapter) Bet(p string, c int64) error       { return r.rec("bet", c, p) }
func (r *recAdapter) Call(p string) error               { return r.rec("call", 0, p) }
func (r *recAdapter) Fold(p string) error               { return r.rec("fold", 0, p) }
func (r *recAdapter) Allin(p string) error              { return r.rec("allin", 0, p) }
func (r *recAdapter) Raise(p string, c int64) error     { return r.rec("raise", c, p) }
func (r *recAdapter) ExtendTime(p string, d time.Duration) error { return nil }
func (r *recAdapter) snapshot() [][]interface{} {
	r.mu.Lock()
	defer r.mu.Unlock()
	out := make([][]interface{}, len(r.calls))
	copy(out, r.calls)
	return out
}

type actorLine struct {
	Tr     int             `json:"tr"`
	N      int             `json:"n"`
	Ev     string          `json:"ev"` // botmove | botstale | autoplay | bottable
	Hand   PHand           `json:"hand"`
	Me     int             `json:"me"`
	MyID   string          `json:"myid"`
	Calls  [][]interface{} `json:"calls"`
	Early  [][]interface{} `json:"early"` // autoplay: calls seen before the action time was up
	Res    string          `json:"res"`   // acceptance of the (single) call by the real backend: ok | err:... | none
	Status string          `json:"status"`
	AT     int             `json:"at"`
	Note   string          `json:"note"`
	Reask  int64           `json:"reask"` // autoplay2: ms (since the first delivery) at which the second request was delivered
}

func cloneGS(gs *pokerface.GameState) *pokerface.GameState {
	b, _ := json.Marshal(gs)
	var c pokerface.GameState
	json.Unmarshal(b, &c)
	return &c
}

// wrapperAllowed adds what game.go adds to the published state: "ready" / "pay" for the players it asks.
func wrapperAllowed(gs *pokerface.GameState) {
	switch gs.Status.CurrentEvent {
	case "ReadyRequested":
		for _, p := range gs.Players {
			p.AllowAction("ready")
		}
	case "AnteRequested":
		for _, p := range gs.Players {
			p.AllowAction("pay")
		}
	case "BlindsRequested":
		for _, p := range gs.Players {
			if (gs.Meta.Blind.BB > 0 && gs.HasPosition(p.Idx, "bb")) || (gs.Meta.Blind.SB > 0 && gs.HasPosition(p.Idx, "sb")) || (gs.Meta.Blind.Dealer > 0 && gs.HasPosition(p.Idx, "dealer")) {
				p.AllowAction("pay")
			}
		}
	}
}

func tableFor(gs *pokerface.GameState, ids []string, at int) *pt.Table {
	t := &pt.Table{ID: "show", Meta: pt.TableMeta{CompetitionID: "c", Rule: "default", Mode: "ct", TableMaxSeatCount: 9, TableMinPlayerCount: 2, ActionTime: at}}
	st := &pt.TableState{Status: pt.TableStateStatus_TableGamePlaying, GameCount: 1, GameState: gs, SeatMap: pt.NewDefaultSeatMap(9),
		BlindState: &pt.TableBlindState{Level: 1, Ante: gs.Meta.Ante, Dealer: gs.Meta.Blind.Dealer, SB: gs.Meta.Blind.SB, BB: gs.Meta.Blind.BB}}
	for i, id := range ids {
		st.PlayerStates = append(st.PlayerStates, &pt.TablePlayerState{PlayerID: id, Seat: i, Positions: gs.Players[i].Positions, IsParticipated: true, IsIn: true, Bankroll: gs.Players[i].Bankroll})
		st.SeatMap[i] = i
		st.GamePlayerIndexes = append(st.GamePlayerIndexes, i)
	}
	t.State = st
	return t
}

// safeDeliver hands a view to a runner; a runner that panics has not made its move
func safeDeliver(a actor.Actor, t *pt.Table) (panicked bool) {
	defer func() {
		if r := recover(); r != nil {
			panicked = true
		}
	}()
	a.UpdateTableState(t)
	return false
}

func applyCall(be *pt.NativeGameBackend, gs *pokerface.GameState, me int, call []interface{}) string {
	kind, amt := call[0].(string), call[1].(int64)
	if kind == "ready" || kind == "pay" {
		if gs.HasAction(me, kind) {
			return "ok"
		}
		return "err:not-allowed"
	}
	if gs.Status.CurrentPlayer != me {
		return "err:not-current"
	}
	var err error
	switch kind {
	case "pass":
		if !gs.HasAction(me, "pass") {
			return "err:not-allowed"
		}
		_, err = be.Pass(gs)
	case "fold":
		_, err = be.Fold(gs)
	case "check":
		_, err = be.Check(gs)
	case "call":
		_, err = be.Call(gs)
	case "allin":
		_, err = be.Allin(gs)
	case "bet":
		_, err = be.Bet(gs, amt)
	case "raise":
		_, err = be.Raise(gs, amt)
	}
	if err != nil {
		return "err:" + err.Error()
	}
	return "ok"
}

// cmdActors shows reachable hand states of the REAL backend to real bot / player runners wired to a recording adapter.
func cmdActors(args []string) int {
	fs := flag.NewFlagSet("actors", flag.ExitOnError)
	layout := fs.String("layout", "std3", "label layout")
	stacksS := fs.String("stacks", "3,4,2", "stack vectors separated by ';'")
	blinds := fs.String("blinds", "0,0,1,2", "ante,dealer,sb,bb")
	reps := fs.Int("reps", 6, "fresh bot instances per (state, player)")
	maxStates := fs.Int("maxstates", 400, "cap on states shown")
	timed := fs.Int("timed", 12, "how many (state, player) cases get a real action-time wait")
	out := fs.String("out", "", "output ndjson")
	tr := fs.Int("tr", 1, "trace id")
	fs.Parse(args)
	f, err := os.Create(*out)
	if err != nil {
		fmt.Fprintln(os.Stderr, err)
		return 2
	}
	w := bufio.NewWriterSize(f, 1<<20)
	enc := json.NewEncoder(w)
	realOut, _ := syscall.Dup(1)
	null, _ := os.OpenFile(os.DevNull, os.O_WRONLY, 0)
	syscall.Dup2(int(null.Fd()), 1)
	var bl []int64
	for _, x := range strings.Split(*blinds, ",") {
		v, _ := strconv.ParseInt(x, 10, 64)
		bl = append(bl, v)
	}
	labels := labelLayouts[*layout]
	be := pt.NewNativeGameBackend()
	rec := &Recorder{gids: map[string]int{}, upds: map[int64]int{}}
	// collect reachable states (DFS over the real backend)
	var states []*pokerface.GameState
	for _, sv := range strings.Split(*stacksS, ";") {
		var stacks []int64
		for _, x := range strings.Split(sv, ",") {
			v, _ := strconv.ParseInt(x, 10, 64)
			stacks = append(stacks, v)
		}
		opts := pokerface.NewStardardGameOptions()
		opts.Deck = pokerface.NewStandardDeckCards()
		opts.Ante = bl[0]
		opts.Blind = pokerface.BlindSetting{Dealer: bl[1], SB: bl[2], BB: bl[3]}
		for i := range stacks {
			opts.Players = append(opts.Players, &pokerface.PlayerSetting{Bankroll: stacks[i], Positions: labels[i]})
		}
		gs, err := be.CreateGame(opts)
		if err != nil {
			continue
		}
		seen := map[string]bool{}
		stack := []*pokerface.GameState{gs}
		for len(stack) > 0 && len(states) < *maxStates*3 {
			g := stack[len(stack)-1]
			stack = stack[:len(stack)-1]
			h := rec.projectHand(g)
			h.Gid, h.Upd = 0, 0
			kb, _ := json.Marshal(h)
			if seen[string(kb)] {
				continue
			}
			seen[string(kb)] = true
			push := func(ng *pokerface.GameState, e error) {
				if e == nil {
					stack = append(stack, ng)
				}
			}
			switch g.Status.CurrentEvent {
			case "ReadyRequested":
				states = append(states, g)
				push(be.ReadyForAll(g))
			case "AnteRequested":
				states = append(states, g)
				push(be.PayAnte(g))
			case "BlindsRequested":
				states = append(states, g)
				push(be.PayBlinds(g))
			case "RoundClosed":
				push(be.Next(g))
			case "RoundStarted":
				states = append(states, g)
				p := g.Players[g.Status.CurrentPlayer]
				for _, a := range p.AllowedActions {
					switch a {
					case "fold":
						push(be.Fold(g))
					case "check":
						push(be.Check(g))
					case "pass":
						push(be.Pass(g))
					case "call":
						push(be.Call(g))
					case "allin":
						push(be.Allin(g))
					case "bet":
						push(be.Bet(g, g.Status.MiniBet))
						push(be.Bet(g, p.InitialStackSize))
					case "raise":
						push(be.Raise(g, g.Status.CurrentWager+g.Status.PreviousRaiseSize))
					}
				}
			}
		}
	}
	if len(states) > *maxStates {
		step := len(states) / *maxStates
		sel := []*pokerface.GameState{}
		for i := 0; i < len(states); i += step + 1 {
			sel = append(sel, states[i])
		}
		states = sel
	}
	n := 0
	emit := func(l actorLine) {
		n++
		l.Tr, l.N = *tr, n
		if l.Calls == nil {
			l.Calls = [][]interface{}{}
		}
		if l.Early == nil {
			l.Early = [][]interface{}{}
		}
		enc.Encode(l)
	}
	type timedCase struct {
		ad     *recAdapter
		line   actorLine
		gs     *pokerface.GameState
		me     int
	}
	var timedCases []timedCase
	for si, g0 := range states {
		np := len(g0.Players)
		ids := []string{}
		for i := 0; i < np; i++ {
			ids = append(ids, fmt.Sprintf("b%d", i))
		}
		for me := 0; me < np; me++ {
			shown := cloneGS(g0)
			wrapperAllowed(shown)
			shown.UpdatedAt = int64(1000 + si)
			hand := rec.projectHand(shown)
			hand.Gid, hand.Upd = 0, 0
			// ---- bots (C18): several fresh instances cover the random draws
			for k := 0; k < *reps; k++ {
				ad := &recAdapter{ids: ids, t0: time.Now()}
				a := actor.NewActor()
				a.SetAdapter(ad)
				bot := actor.NewBotRunner(ids[me])
				a.SetRunner(bot)
				gsk := cloneGS(shown)
				ad.gs = gsk
				t1 := tableFor(gsk, ids, 0)
				t1.UpdateSerial = 10
				panicked := safeDeliver(a, t1)
				calls := ad.snapshot()
				res := "none"
				if panicked {
					res = "panic"
				} else if len(calls) == 1 {
					c := calls[0]
					res = applyCall(be, cloneGS(shown), me, []interface{}{c[0], c[1]})
				}
				emit(actorLine{Ev: "botmove", Hand: hand, Me: me, MyID: ids[me], Calls: calls, Res: res, Status: "bot", AT: 0})
				if k == 0 {
					// the same hand state again, republished by a table-level event (higher table serial), and an older
					// hand state arriving late: a stale view must not trigger a second move
					t2 := tableFor(cloneGS(shown), ids, 0)
					t2.UpdateSerial = 11
					a.UpdateTableState(t2)
					again := ad.snapshot()
					emit(actorLine{Ev: "botstale", Hand: hand, Me: me, MyID: ids[me], Calls: again[len(calls):], Res: "none", Status: "bot", AT: 0})
					old := cloneGS(shown)
					old.UpdatedAt--
					t3 := tableFor(old, ids, 0)
					t3.UpdateSerial = 12
					a.UpdateTableState(t3)
					again2 := ad.snapshot()
					emit(actorLine{Ev: "botstale", Hand: hand, Me: me, MyID: ids[me], Calls: again2[len(again):], Res: "none", Status: "bot", AT: 0})
				}
			}
			// ---- player runner auto-play (C19)
			for _, mode := range []string{"running0", "suspended", "idle0"} {
				ad := &recAdapter{ids: ids, t0: time.Now()}
				a := actor.NewActor()
				a.SetAdapter(ad)
				pr := actor.NewPlayerRunner(ids[me])
				a.SetRunner(pr)
				switch mode {
				case "suspended":
					pr.Suspend()
				case "idle0":
					pr.Idle()
				}
				gsk := cloneGS(shown)
				ad.gs = gsk
				tv := tableFor(gsk, ids, 0)
				if mode != "running0" {
					// the competition clock has meanwhile raised the table's blind level: the running hand keeps its own
					tv.State.BlindState = &pt.TableBlindState{Level: 2, Ante: gsk.Meta.Ante + 3, Dealer: gsk.Meta.Blind.Dealer*2 + 1, SB: gsk.Meta.Blind.SB*2 + 1, BB: gsk.Meta.Blind.BB*2 + 1}
				}
				a.UpdateTableState(tv)
				time.Sleep(200 * time.Microsecond)
				calls := ad.snapshot()
				res := "none"
				if len(calls) == 1 {
					res = applyCall(be, cloneGS(shown), me, []interface{}{calls[0][0], calls[0][1]})
				}
				emit(actorLine{Ev: "autoplay", Hand: hand, Me: me, MyID: ids[me], Calls: calls, Res: res, Status: mode, AT: 0})
			}
			if len(timedCases) < *timed && (si%7 == 0) {
				for _, mode := range []string{"running", "suspended", "idle", "running-th0"} {
					ad := &recAdapter{ids: ids, t0: time.Now()}
					a := actor.NewActor()
					a.SetAdapter(ad)
					pr := actor.NewPlayerRunner(ids[me])
					a.SetRunner(pr)
					if mode == "suspended" {
						pr.Suspend()
					} else if mode == "idle" {
						pr.Idle()
					} else if mode == "running-th0" {
						// a player who has never been idle is not suspended, whatever the suspension threshold is set to
						pr.SetSuspendThreshold(0)
						mode = "running"
					}
					gsk := cloneGS(shown)
					ad.gs = gsk
					ad.t0 = time.Now()
					a.UpdateTableState(tableFor(gsk, ids, 1))
					timedCases = append(timedCases, timedCase{ad: ad, gs: shown, me: me, line: actorLine{Ev: "autoplay", Hand: hand, Me: me, MyID: ids[me], Status: mode, AT: 1}})
				}
			}
		}
	}
	// ---- asked again in the same betting round after acting himself: the thinking time starts afresh (C19)
	type reask struct {
		ad   *recAdapter
		hand PHand
		at   int64
	}
	var reasks []reask
	for k := 0; k < 3; k++ {
		opts := pokerface.NewStardardGameOptions()
		opts.Deck = pokerface.NewStandardDeckCards()
		opts.Blind = pokerface.BlindSetting{SB: 1, BB: 2}
		opts.Players = []*pokerface.PlayerSetting{{Bankroll: int64(20 + k), Positions: []string{"dealer", "sb"}}, {Bankroll: 30, Positions: []string{"bb"}}}
		g, err := be.CreateGame(opts)
		if err != nil {
			break
		}
		g, _ = be.ReadyForAll(g)
		g, _ = be.PayBlinds(g)
		g, _ = be.ReadyForAll(g) // preflop: the dealer / small blind (index 0) is asked
		if g == nil || g.Status.CurrentEvent != "RoundStarted" || g.Status.CurrentPlayer != 0 {
			break
		}
		s1 := cloneGS(g)
		s1.UpdatedAt = 5000
		g2, err := be.Call(g)
		if err != nil {
			break
		}
		g3, err := be.Raise(g2, 6) // the big blind raises: index 0 is asked again in the same round
		if err != nil || g3.Status.CurrentPlayer != 0 {
			break
		}
		s2 := cloneGS(g3)
		s2.UpdatedAt = 6000
		ids := []string{"b0", "b1"}
		ad := &recAdapter{ids: ids, t0: time.Now()}
		a := actor.NewActor()
		a.SetAdapter(ad)
		pr := actor.NewPlayerRunner("b0")
		a.SetRunner(pr)
		ad.gs = s1
		a.UpdateTableState(tableFor(s1, ids, 1))
		time.Sleep(300 * time.Millisecond)
		pr.Call() // the player answers the first request himself
		time.Sleep(200 * time.Millisecond)
		at := time.Since(ad.t0).Milliseconds()
		ad.gs = s2
		a.UpdateTableState(tableFor(s2, ids, 1))
		h := rec.projectHand(s2)
		h.Gid, h.Upd = 0, 0
		reasks = append(reasks, reask{ad: ad, hand: h, at: at})
	}
	// ---- the same, but the second request comes only after the first one's thinking time has run out (the player answered
	// the first himself; the table refuses whatever the expired countdown sends while it is the opponent's turn): the
	// automatic answer to the second request must still wait for ITS thinking time
	lateDone := make(chan *reask, 1)
	go func() {
		opts := pokerface.NewStardardGameOptions()
		opts.Deck = pokerface.NewStandardDeckCards()
		opts.Blind = pokerface.BlindSetting{SB: 1, BB: 2}
		opts.Players = []*pokerface.PlayerSetting{{Bankroll: 40, Positions: []string{"dealer", "sb"}}, {Bankroll: 40, Positions: []string{"bb"}}}
		g, err := be.CreateGame(opts)
		if err != nil {
			lateDone <- nil
			return
		}
		g, _ = be.ReadyForAll(g)
		g, _ = be.PayBlinds(g)
		g, _ = be.ReadyForAll(g)
		if g == nil || g.Status.CurrentEvent != "RoundStarted" || g.Status.CurrentPlayer != 0 {
			lateDone <- nil
			return
		}
		s1 := cloneGS(g)
		s1.UpdatedAt = 7000
		g2, err := be.Call(cloneGS(g))
		if err != nil {
			lateDone <- nil
			return
		}
		g3, err := be.Raise(cloneGS(g2), 6)
		if err != nil || g3.Status.CurrentPlayer != 0 {
			lateDone <- nil
			return
		}
		s2 := cloneGS(g3)
		s2.UpdatedAt = 8000
		ids := []string{"b0", "b1"}
		ad := &recAdapter{ids: ids, t0: time.Now()}
		var tmu sync.Mutex
		tableState := s1 // what the table would judge a call against
		ad.judge = func(kind string, amt int64, pid string) error {
			tmu.Lock()
			defer tmu.Unlock()
			if r := applyCall(be, cloneGS(tableState), 0, []interface{}{kind, amt}); r != "ok" {
				return fmt.Errorf("refused: %s", r)
			}
			if kind == "call" {
				tableState = g2 // the player's own call: now it is the opponent's turn
			}
			return nil
		}
		a := actor.NewActor()
		a.SetAdapter(ad)
		pr := actor.NewPlayerRunner("b0")
		a.SetRunner(pr)
		ad.gs = s1
		a.UpdateTableState(tableFor(s1, ids, 1))
		time.Sleep(300 * time.Millisecond)
		pr.Call()
		time.Sleep(950 * time.Millisecond) // the first request's thinking time (1 s) has run out meanwhile
		tmu.Lock()
		tableState = s2
		tmu.Unlock()
		at := time.Since(ad.t0).Milliseconds()
		ad.gs = s2
		a.UpdateTableState(tableFor(s2, ids, 1))
		h := rec.projectHand(s2)
		h.Gid, h.Upd = 0, 0
		time.Sleep(1400 * time.Millisecond)
		lateDone <- &reask{ad: ad, hand: h, at: at}
	}()
	// the action time of the timed cases is one second
	time.Sleep(650 * time.Millisecond)
	early := make([][][]interface{}, len(timedCases))
	for i, tc := range timedCases {
		early[i] = tc.ad.snapshot()
	}
	time.Sleep(800 * time.Millisecond)
	for i, tc := range timedCases {
		calls := tc.ad.snapshot()
		l := tc.line
		l.Calls, l.Early = calls, early[i]
		l.Res = "none"
		if len(calls) == 1 {
			l.Res = applyCall(be, cloneGS(tc.gs), tc.me, []interface{}{calls[0][0], calls[0][1]})
		}
		emit(l)
	}
	time.Sleep(300 * time.Millisecond)
	for _, ra := range reasks {
		emit(actorLine{Ev: "autoplay2", Hand: ra.hand, Me: 0, MyID: "b0", Calls: ra.ad.snapshot(), Res: "none", Status: "running", AT: 1, Reask: ra.at})
	}
	if ra := <-lateDone; ra != nil {
		emit(actorLine{Ev: "autoplay2", Hand: ra.hand, Me: 0, MyID: "b0", Calls: ra.ad.snapshot(), Res: "none", Status: "running", AT: 1, Reask: ra.at, Note: "late"})
	}
	w.Flush()
	f.Close()
	syscall.Dup2(realOut, 1)
	fmt.Fprintf(os.NewFile(uintptr(realOut), "stdout"), "{\"states\":%d,\"lines\":%d}\n", len(states), n)
	return 0
}
