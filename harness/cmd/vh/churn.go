package main

import (
	"bufio"
	"encoding/json"
	"flag"
	"fmt"
	"os"
	"runtime"
	"sync"
	"syscall"
	"time"

	pt "github.com/weedbox/pokertable"
)

// churn: the table's own auto-sit-in machinery (a ready group re-armed by every reservation, signalled lock-free by
// every sit-in, completed in a goroutine of its own) under a stream of reserve / sit-in / leave calls:
//   reserve a;  { sit-in a  ||  reserve b };  leave a, b        -- over and over on one table.
// Every call must return, the process must survive, the bookkeeping must be consistent afterwards (C16).
// Lines use the vh conc format (ev "churn" | "hang"); a crash is reported by the orchestrator from the exit status.
func init() { commands["churn"] = cmdChurn }

func cmdChurn(args []string) int {
	fs := flag.NewFlagSet("churn", flag.ExitOnError)
	from := fs.Int64("from", 1, "first seed")
	count := fs.Int("count", 3, "scenarios")
	secs := fs.Int("secs", 2, "seconds per scenario")
	out := fs.String("out", "", "output ndjson")
	fs.Parse(args)
	f, err := os.Create(*out)
	if err != nil {
		fmt.Fprintln(os.Stderr, err)
		return 2
	}
	w := bufio.NewWriter(f)
	enc := json.NewEncoder(w)
	realOut, _ := syscall.Dup(1)
	null, _ := os.OpenFile(os.DevNull, os.O_WRONLY, 0)
	syscall.Dup2(int(null.Fd()), 1)
	say := func(s string) { fmt.Fprint(os.NewFile(uintptr(realOut), "stdout"), s) }
	rec := &Recorder{gids: map[string]int{}, upds: map[int64]int{}}
	blank := rec.project(nil, nil)
	lines := 0
	for i := 0; i < *count; i++ {
		seed := *from + int64(i)
		te := pt.NewTableEngine(&pt.TableEngineOptions{GameContinueInterval: 1, OpenGameTimeout: 2})
		te.OnTableUpdated(func(*pt.Table) {})
		te.OnTableErrorUpdated(func(*pt.Table, error) {})
		te.OnTableStateUpdated(func(string, *pt.Table) {})
		te.OnTablePlayerStateUpdated(func(string, string, *pt.TablePlayerState) {})
		te.OnTablePlayerReserved(func(string, string, *pt.TablePlayerState) {})
		te.OnGamePlayerActionUpdated(func(pt.TablePlayerGameAction) {})
		n := 3 + int(seed%7)
		if _, err := te.CreateTable(pt.TableSetting{TableID: fmt.Sprintf("churn%d", seed), Meta: pt.TableMeta{CompetitionID: "c", Rule: "default", Mode: "ct", MaxDuration: 100000,
			TableMaxSeatCount: n, TableMinPlayerCount: 2, MinChipUnit: 1, ActionTime: 10}, Blind: pt.TableBlindState{Level: 1, SB: 1, BB: 2}}); err != nil {
			fmt.Fprintln(os.Stderr, err)
			return 2
		}
		var mu sync.Mutex
		iters := 0
		progress := make(chan struct{}, 4096)
		stop := time.Now().Add(time.Duration(*secs) * time.Second)
		go func() {
			for k := 0; time.Now().Before(stop); k++ {
				var wg sync.WaitGroup
				a, b := fmt.Sprintf("a%d", k), fmt.Sprintf("b%d", k)
				te.PlayerReserve(pt.JoinPlayer{PlayerID: a, RedeemChips: 5, Seat: -1})
				wg.Add(2)
				go func() { defer wg.Done(); te.PlayerJoin(a) }()
				go func() { defer wg.Done(); te.PlayerReserve(pt.JoinPlayer{PlayerID: b, RedeemChips: 5, Seat: -1}) }()
				wg.Wait()
				if k%3 == 0 {
					te.PlayersLeave([]string{a})
					te.PlayersLeave([]string{b})
				} else {
					te.PlayersLeave([]string{a, b})
				}
				mu.Lock()
				iters++
				mu.Unlock()
				select {
				case progress <- struct{}{}:
				default:
				}
			}
			close(progress)
		}()
		hung := false
	wait:
		for {
			select {
			case _, ok := <-progress:
				if !ok {
					break wait
				}
			case <-time.After(8 * time.Second):
				hung = true
				break wait
			}
		}
		mu.Lock()
		it := iters
		mu.Unlock()
		l := concLine{Tr: int(seed), N: 1, Ev: "churn", Procs: runtime.GOMAXPROCS(0), Ops: []concOp{}, Pre: blank, St: blank, SMPre: emptySM(), SMSt: emptySM(), Note: fmt.Sprintf("%d rounds", it)}
		if hung {
			l.Ev, l.Sig = "hang", hangSignature()
			l.Note = fmt.Sprintf("a call did not return after %d rounds", it)
		} else {
			time.Sleep(2 * time.Millisecond)
			l.St = rec.project(te, nil)
		}
		enc.Encode(l)
		lines++
		w.Flush()
		if hung {
			// the engine lock may be held for ever: nothing more can be done in this process
			say(fmt.Sprintf("{\"scenarios\":%d,\"lines\":%d,\"hung\":1}\n", i+1, lines))
			os.Exit(0)
		}
	}
	w.Flush()
	f.Close()
	syscall.Dup2(realOut, 1)
	fmt.Printf("{\"scenarios\":%d,\"lines\":%d}\n", *count, lines)
	return 0
}
