package main

import (
	"encoding/json"
	"flag"
	"fmt"
	"math/rand"
	"os"
	"strings"
	"syscall"
	"time"
)

func init() {
	commands["table"] = cmdTable
}

// genScenario builds a seeded random scenario. profile selects the family; allow lists the known-finding
// triggers this pool may contain (the main pool contains none of them).
func genScenario(seed int64, profile string, allow map[string]bool) *Scenario {
	switch profile {
	case "members":
		return genMembers(seed, allow)
	case "life":
		return genLife(seed, allow)
	case "hand":
		return genHand(seed, allow)
	case "kf":
		return genKF(seed, allow)
	case "fault":
		return genFault(seed, allow)
	case "bots":
		return genBots(seed, allow)
	case "timeout":
		return genTimeout(seed, allow)
	}
	r := rand.New(rand.NewSource(seed*7919 + 17))
	sc := &Scenario{Seed: seed, Mode: []string{"ct", "ct", "cash", "mtt"}[r.Intn(4)], Rule: "default", MinPlayers: 2,
		ActionTime: []int{0, 7, 30}[r.Intn(3)]}
	ns := []int{2, 3, 3, 4, 4, 5, 6, 6, 7, 8, 9, 9, 10}
	sc.N = ns[r.Intn(len(ns))]
	if profile == "smalln" {
		sc.N = 2 + r.Intn(4)
	}
	// (the pinned seat manager supports only the default and short-deck rules; an omaha table cannot open a hand)
	if r.Intn(10) == 0 {
		sc.Rule = "short_deck"
	}
	if !allow["shortdeck"] && sc.Rule == "short_deck" {
		sc.Rule = "default"
	}
	ante := int64(0)
	if r.Intn(3) == 0 {
		ante = 1
	}
	dealer, sb := int64(0), int64(1)
	switch r.Intn(8) {
	case 0:
		dealer = 2
	case 1:
		sb = 0 // no-SB structure (with dealer 0 the hand engine skips blind collection)
	case 2:
		dealer, sb = 1, 0
	}
	sc.Blind = []int64{1, ante, dealer, sb, 2}
	sc.MinChip = []int64{1, 1, 5, 10}[r.Intn(4)] // stacks and pots are mostly not multiples of the unit
	if sc.Rule == "short_deck" {
		sc.Blind = []int64{1, 1, 2, 0, 0}
	}
	if sc.Rule != "short_deck" && (r.Intn(20) == 0 || (sc.Mode == "mtt" && r.Intn(5) == 0)) {
		sc.Blind = []int64{-1, 0, 0, 0, 0} // created during a break (with or without initial players): starts paused
	}
	np := 2 + r.Intn(min(sc.N-1, 5))
	if np > sc.N {
		np = sc.N
	}
	ids := []string{}
	next := 0
	newID := func() string { next++; return fmt.Sprintf("p%d", next) }
	chips := func() int64 {
		if r.Intn(25) == 0 {
			return 0 // a seat reserved without chips (the player buys in later)
		}
		switch r.Intn(4) {
		case 0:
			return int64(1 + r.Intn(6))
		case 1:
			return int64(20 + r.Intn(60))
		default:
			return int64(4 + r.Intn(14))
		}
	}
	freeSeats := r.Perm(sc.N)
	seated := map[string]int{}
	takeSeat := func() int {
		if len(freeSeats) == 0 {
			return -1
		}
		s := freeSeats[0]
		freeSeats = freeSeats[1:]
		return s
	}
	add := func(o Op) { sc.Steps = append(sc.Steps, Step{Op: &o}) }
	useInitial := sc.Mode == "mtt" || r.Intn(4) == 0
	for i := 0; i < np; i++ {
		id := newID()
		ids = append(ids, id)
		seat := takeSeat()
		seated[id] = seat
		js := JoinSpec{ID: id, Seat: seat, Chips: chips()}
		if r.Intn(3) == 0 {
			js.Seat = -1 // random seat: the engine chooses; we no longer know which
		}
		if useInitial {
			sc.Initial = append(sc.Initial, js)
		} else {
			add(Op{Op: "reserve", ID: id, Seat: js.Seat, Chips: js.Chips})
		}
	}
	for _, id := range ids {
		add(Op{Op: "join", ID: id})
	}
	add(Op{Op: "start"})
	hands := 2 + r.Intn(5)
	if profile == "long" {
		hands = 8 + r.Intn(10)
	}
	policies := []string{"rand", "rand", "passive", "aggro", "foldy"}
	for h := 0; h < hands; h++ {
		hp := &HandPlan{Policy: policies[r.Intn(len(policies))], ShuffleAns: r.Intn(2) == 0, DupAnswers: r.Intn(6) == 0}
		if sc.Rule == "default" && r.Intn(3) != 0 {
			k := r.Intn(20)
			if k == 0 {
				hp.TieAll = true
			} else {
				perm := r.Perm(10)
				hp.Strength = perm
				if k < 5 { // a two-way tie somewhere below the top two ranks
					a, b := r.Intn(10), r.Intn(10)
					if a != b && perm[a] >= 2 {
						hp.Strength[b] = perm[a]
					}
				}
			}
		}
		// injections
		phases := []string{"prefinish", "ready1", "ready2", "blinds", "turn0", "turn1", "turn2", "turn4", "settled", "settled"}
		nInj := r.Intn(4)
		if profile == "calm" {
			nInj = 0
		}
		for k := 0; k < nInj; k++ {
			at := phases[r.Intn(len(phases))]
			during := at != "prefinish" && at != "settled"
			var o Op
			switch r.Intn(10) {
			case 0, 1: // newcomer
				if len(ids) < sc.N+1 {
					id := newID()
					ids = append(ids, id)
					seat := -1
					if r.Intn(3) != 0 {
						seat = r.Intn(sc.N) // may be taken: then the reservation is refused, which is a case too
					}
					o = Op{Op: "reserve", ID: id, Seat: seat, Chips: chips()}
					hp.Inj = append(hp.Inj, Inj{At: at, Ops: []Op{o, {Op: "join", ID: id}}})
					continue
				}
				o = Op{Op: "join", ID: ids[r.Intn(len(ids))]}
			case 2: // re-buy (top-up through PlayerReserve)
				o = Op{Op: "reserve", ID: ids[r.Intn(len(ids))], Seat: -1, Chips: chips()}
			case 3: // add-on
				o = Op{Op: "redeem", ID: ids[r.Intn(len(ids))], Chips: chips()}
			case 4: // departure
				if during && !allow["kf-midhand-leave"] {
					o = Op{Op: "leave", IDs: []string{"@out"}} // resolved at run time to a player not dealt in (or skipped)
				} else {
					o = Op{Op: "leave", IDs: []string{ids[r.Intn(len(ids))]}}
				}
			case 5:
				o = Op{Op: "blind", Blind: []int64{int64(2 + r.Intn(3)), int64(r.Intn(2)), 0, int64(1 + r.Intn(2)), int64(3 + r.Intn(3))}}
			case 6: // an action attempt by somebody (C10)
				whos := []string{"cur", "other", "out", "stranger"}
				kinds := []string{"fold", "check", "call", "bet", "raise", "allin", "pass", "ready", "pay"}
				o = Op{Op: "act", Who: whos[r.Intn(4)], Kind: kinds[r.Intn(len(kinds))], Amt: int64(1 + r.Intn(8))}
				if o.Who == "cur" && during {
					// a legal-looking action by the player to move would change the line; keep attempts to refusals
					o.Kind = []string{"ready", "pay", "pass"}[r.Intn(3)]
				}
			case 7:
				o = Op{Op: "extend", ID: ids[r.Intn(len(ids))], Amt: int64(1 + r.Intn(20))}
			case 8:
				o = Op{Op: "join", ID: ids[r.Intn(len(ids))]}
			case 9:
				o = Op{Op: "finish", ID: ids[r.Intn(len(ids))]}
			}
			hp.Inj = append(hp.Inj, Inj{At: at, Ops: []Op{o}})
		}
		if r.Intn(30) == 0 {
			hp.WithholdFin = 1
		}
		sc.Steps = append(sc.Steps, Step{Hand: hp})
	}
	return sc
}

func min(a, b int) int {
	if a < b {
		return a
	}
	return b
}

// resolve run-time placeholders in ops: "@out" a seated player not dealt into the current hand, "@part" one who is,
// "@any" any seated player, "@busted" a seated player without chips, "@unknown" an id nobody has.
func (d *TD) resolveID(id string) (string, bool) {
	if !strings.HasPrefix(id, "@") {
		return id, true
	}
	t := d.table()
	var cands []string
	for _, p := range t.State.PlayerStates {
		switch id {
		case "@out":
			if !p.IsParticipated {
				cands = append(cands, p.PlayerID)
			}
		case "@part":
			if p.IsParticipated {
				cands = append(cands, p.PlayerID)
			}
		case "@any":
			cands = append(cands, p.PlayerID)
		case "@busted":
			if p.Bankroll == 0 {
				cands = append(cands, p.PlayerID)
			}
		case "@notin":
			if !p.IsIn {
				cands = append(cands, p.PlayerID)
			}
		}
	}
	if id == "@unknown" {
		return "nobody-" + fmt.Sprint(d.rng.Intn(3)), true
	}
	if len(cands) == 0 {
		return "", false
	}
	return cands[d.rng.Intn(len(cands))], true
}

func (d *TD) resolveOp(o Op) (Op, bool) {
	ok := true
	if strings.HasPrefix(o.ID, "@") {
		o.ID, ok = d.resolveID(o.ID)
		if !ok {
			return o, false
		}
	}
	if len(o.IDs) > 0 {
		ids := []string{}
		for _, x := range o.IDs {
			y, ok2 := d.resolveID(x)
			if !ok2 {
				return o, false
			}
			ids = append(ids, y)
		}
		o.IDs = ids
	}
	if o.Op == "setup" && len(o.IDs) == 1 && o.IDs[0] == "*" {
		ids := []string{}
		for _, p := range d.table().State.PlayerStates {
			if p.IsIn && p.Bankroll > 0 {
				ids = append(ids, p.PlayerID)
			}
		}
		o.IDs = ids
		o.Gc = d.table().State.GameCount + 1
	}
	if o.Op == "setup" && o.Gc == 0 {
		o.Gc = d.table().State.GameCount + 1
	}
	return o, true
}

func cmdTable(args []string) int {
	fs := flag.NewFlagSet("table", flag.ExitOnError)
	from := fs.Int64("from", 1, "first scenario seed")
	count := fs.Int("count", 10, "number of scenarios")
	profile := fs.String("profile", "general", "scenario family")
	via := fs.String("via", "", "manager: route every call through a pokertable.Manager")
	actors := fs.Bool("actors", false, "attach observer actors to every table update")
	bots := fs.Bool("bots", false, "every seated player is a real botRunner")
	allowS := fs.String("allow", "", "comma list of known-finding triggers this pool may contain")
	out := fs.String("out", "", "output ndjson")
	scenFile := fs.String("scenario", "", "run the scenarios (JSON list) in this file instead of generating")
	dump := fs.String("dump", "", "write the generated scenarios here (JSON list)")
	fs.Parse(args)
	allow := map[string]bool{}
	for _, a := range strings.Split(*allowS, ",") {
		if a != "" {
			allow[a] = true
		}
	}
	var scs []*Scenario
	if *scenFile != "" {
		b, err := os.ReadFile(*scenFile)
		if err != nil {
			fmt.Fprintln(os.Stderr, err)
			return 2
		}
		if err := json.Unmarshal(b, &scs); err != nil {
			fmt.Fprintln(os.Stderr, err)
			return 2
		}
	} else {
		for i := 0; i < *count; i++ {
			scs = append(scs, genScenario(*from+int64(i), *profile, allow))
		}
	}
	if *dump != "" {
		b, _ := json.Marshal(scs)
		os.WriteFile(*dump, b, 0644)
	}
	rec, err := NewRecorder(*out)
	if err != nil {
		fmt.Fprintln(os.Stderr, err)
		return 2
	}
	// the engine logs every event to stdout
	realOut, _ := syscall.Dup(1)
	null, _ := os.OpenFile(os.DevNull, os.O_WRONLY, 0)
	syscall.Dup2(int(null.Fd()), 1)
	stuck, done := 0, 0
	for _, sc := range scs {
		if *via != "" {
			sc.Via = *via
		}
		if *actors {
			sc.Actors = true
		}
		if *bots {
			sc.Bots = true
		}
		rec.StartTrace(int(sc.Seed))
		b, _ := json.Marshal(sc)
		a := mkArgs()
		a.Note = string(b)
		a.Kind = sc.Via
		rec.Emit("scenario", a, "", nil, nil, nil, false)
		rec.Flush()
		d := NewTD(rec, sc)
		// watchdog: the external ready-group library can deadlock (recursive read lock against a writer); a driver that
		// makes no progress for a minute gives up on the whole batch instead of hanging the check
		doneCh := make(chan string, 1)
		go func() { doneCh <- d.Run() }()
		var outcome string
		select {
		case outcome = <-doneCh:
		case <-time.After(150 * time.Second):
			a := mkArgs()
			a.Note = "driver made no progress for 150 s (engine call did not return)"
			rec.Emit("hang", a, "", nil, nil, nil, false)
			rec.Close()
			syscall.Dup2(realOut, 1)
			fmt.Fprintf(os.NewFile(uintptr(realOut), "stdout"), "{\"scenarios\":%d,\"stuck\":%d,\"lines\":%d,\"hung\":1}\n", done, stuck, rec.lines)
			os.Exit(0)
		}
		if outcome == "stuck" {
			stuck++
		}
		done++
		rec.Flush()
	}
	rec.Close()
	syscall.Dup2(realOut, 1)
	fmt.Fprintf(os.NewFile(uintptr(realOut), "stdout"), "{\"scenarios\":%d,\"stuck\":%d,\"lines\":%d}\n", done, stuck, rec.lines)
	return 0
}
