package main

import (
	"bufio"
	"crypto/sha1"
	"encoding/hex"
	"encoding/json"
	"os"
	"regexp"
	"sort"
	"sync"
	"sync/atomic"
	"time"

	"github.com/weedbox/pokerface"
	pt "github.com/weedbox/pokertable"
	ogm "github.com/weedbox/pokertable/open_game_manager"
	sm "github.com/weedbox/pokertable/seat_manager"
)

// ---- projected abstract state (DESIGN.md appendix B) ------------------------

type PStats struct {
	AT    int      `json:"at"`
	RT    int      `json:"rt"`
	CT    int      `json:"ct"`
	KT    int      `json:"kt"`
	Fold  bool     `json:"fold"`
	FR    string   `json:"fr"`
	Flags []string `json:"flags"`
}

type PPlayer struct {
	ID    string   `json:"id"`
	Seat  int      `json:"seat"`
	Bank  int64    `json:"bank"`
	In    bool     `json:"in"`
	Part  bool     `json:"part"`
	Pos   []string `json:"pos"`
	Stats PStats   `json:"stats"`
}

type PAction struct {
	ID     string `json:"id"`
	Seat   int    `json:"seat"`
	Action string `json:"action"`
	Round  string `json:"round"`
	Gid    int    `json:"gid"`
	Gc     int    `json:"gc"`
	Chips  int64  `json:"chips"`
}

type PHandPlayer struct {
	Pos      []string `json:"pos"`
	Bankroll int64    `json:"bankroll"`
	Init     int64    `json:"init"`
	Stack    int64    `json:"stack"`
	Wager    int64    `json:"wager"`
	Pot      int64    `json:"pot"`
	Fold     bool     `json:"fold"`
	Acted    bool     `json:"acted"`
	Did      string   `json:"did"`
	Allowed  []string `json:"allowed"`
	Hole     int      `json:"hole"`
	Combo    bool     `json:"combo"`
	Power    int      `json:"power"`
	Rank     int      `json:"rank"` // dense rank of Power among the hand's players (0 = weakest)
}

type PHand struct {
	Gid     int           `json:"gid"`
	Ev      string        `json:"ev"`
	Round   string        `json:"round"`
	Cur     int           `json:"cur"`
	Raiser  int           `json:"raiser"`
	Cw      int64         `json:"cw"`
	Prs     int64         `json:"prs"`
	Mb      int64         `json:"mb"`
	Ante    int64         `json:"ante"`
	Bl      []int64       `json:"bl"` // dealer, sb, bb
	Upd     int           `json:"upd"`
	Deck    int           `json:"deck"`
	Burned  int           `json:"burned"`
	Board   int           `json:"board"`
	P       []PHandPlayer `json:"p"`
	Result  [][]int64     `json:"result"` // [idx, final, changed]
	HoleCnt int           `json:"holecnt"`
}

type PSM struct {
	Seat   []interface{} `json:"seat"`
	Dealer int           `json:"dealer"`
	SB     int           `json:"sb"`
	BB     int           `json:"bb"`
	Inited bool          `json:"inited"`
	Extra  int           `json:"extra"`
}

type PGate struct {
	Gc    int             `json:"gc"`
	Parts [][]interface{} `json:"parts"` // [id, idx, ready]
}

type PState struct {
	Status   string    `json:"status"`
	Gc       int       `json:"gc"`
	Start    bool      `json:"start"`
	N        int       `json:"nseat"`
	MinP     int       `json:"minp"`
	Rule     string    `json:"rule"`
	Mode     string    `json:"mode"`
	AT       int       `json:"actiontime"`
	Players  []PPlayer `json:"players"`
	SeatMap  []int     `json:"seatmap"`
	Gpi      []int     `json:"gpi"`
	Dealer   int       `json:"dealer"`
	SB       int       `json:"sb"`
	BB       int       `json:"bb"`
	Blind    []int64   `json:"blind"`  // level, ante, dealer, sb, bb
	GBlind   []int64   `json:"gblind"` // same, or empty
	Deadline int64     `json:"deadline"`
	LA       []PAction `json:"la"`   // 0 or 1
	NextBB   []string  `json:"nextbb"`
	Hand     []PHand   `json:"hand"` // 0 or 1
	Serial   int64     `json:"serial"`
	SM       PSM       `json:"sm"`
	Gate     PGate     `json:"gate"`
	Released bool      `json:"released"`
	Tid      string    `json:"tid"`
}

// Args: uniform argument record of a call / event.
type Args struct {
	ID    string          `json:"id"`
	IDs   []string        `json:"ids"`
	Seat  int             `json:"seat"`
	Chips int64           `json:"chips"`
	Kind  string          `json:"kind"`
	Amt   int64           `json:"amt"`
	Joins [][]interface{} `json:"joins"` // [id, seat, chips]
	Gc    int             `json:"gc"`
	Blind []int64         `json:"blind"`
	Note  string          `json:"note"`
	Gid   int             `json:"gid"`
	Round string          `json:"round"`
}

func mkArgs() Args {
	return Args{IDs: []string{}, Joins: [][]interface{}{}, Blind: []int64{}, Seat: -2}
}

type Line struct {
	Tr   int      `json:"tr"`
	N    int      `json:"n"`
	Ev   string   `json:"ev"`
	A    Args     `json:"a"`
	Res  string   `json:"res"`
	T    int64    `json:"t"`
	Same bool     `json:"same"`
	Pre  []PState `json:"pre"` // 0 or 1 (call returns only)
	St   PState   `json:"st"`
	By   string   `json:"by"` // manager mode: "same" / "changed" -- the bystander tables' JSON across this call
}

// ---- recorder -------------------------------------------------------------------

type Recorder struct {
	mu     sync.Mutex
	w      *bufio.Writer
	f      *os.File
	enc    *json.Encoder
	tr     int
	seq    int
	events int64
	gids   map[string]int
	upds   map[int64]int
	lines  int
	by     string
	// engine of the scenario being recorded: a line that carries another engine (a timer or retry loop of an earlier
	// scenario's engine waking up late) is dropped under the same mutex that orders the lines
	cur     pt.TableEngine
	guarded bool
}

func (r *Recorder) SetEngine(te pt.TableEngine) {
	r.mu.Lock()
	r.cur, r.guarded = te, true
	r.mu.Unlock()
}

func NewRecorder(path string) (*Recorder, error) {
	f, err := os.Create(path)
	if err != nil {
		return nil, err
	}
	w := bufio.NewWriterSize(f, 1<<20)
	return &Recorder{w: w, f: f, enc: json.NewEncoder(w), gids: map[string]int{}, upds: map[int64]int{}}, nil
}

func (r *Recorder) StartTrace(tr int) {
	r.mu.Lock()
	r.tr = tr
	r.seq = 0
	r.cur = nil
	r.gids = map[string]int{}
	r.upds = map[int64]int{}
	r.mu.Unlock()
}

func (r *Recorder) Close() {
	r.mu.Lock()
	r.w.Flush()
	r.f.Close()
	r.mu.Unlock()
}

func (r *Recorder) Flush() {
	r.mu.Lock()
	r.w.Flush()
	r.mu.Unlock()
}

func (r *Recorder) Events() int64 { return atomic.LoadInt64(&r.events) }

func (r *Recorder) gid(id string) int {
	if id == "" {
		return 0
	}
	if v, ok := r.gids[id]; ok {
		return v
	}
	r.gids[id] = len(r.gids) + 1
	return r.gids[id]
}

func (r *Recorder) upd(u int64) int {
	if v, ok := r.upds[u]; ok {
		return v
	}
	r.upds[u] = len(r.upds) + 1
	return r.upds[u]
}

// Emit projects (under the recorder mutex, so sequence numbers order the projections) and writes one line.
func (r *Recorder) Emit(ev string, a Args, res string, te pt.TableEngine, t *pt.Table, pre *PState, same bool) {
	r.mu.Lock()
	defer r.mu.Unlock()
	if r.guarded && te != nil && te != r.cur {
		return
	}
	r.seq++
	l := Line{Tr: r.tr, N: r.seq, Ev: ev, A: a, Res: res, T: time.Now().Unix(), Same: same, Pre: []PState{}, By: r.by}
	r.by = ""
	if pre != nil {
		l.Pre = []PState{*pre}
	}
	l.St = r.project(te, t)
	if ev == "q" || ev == "end" {
		// quiescent snapshots must not be torn by a timer-driven engine step: take them until two agree
		for i := 0; i < 4; i++ {
			again := r.project(te, t)
			a, _ := json.Marshal(l.St)
			b, _ := json.Marshal(again)
			if string(a) == string(b) {
				break
			}
			l.St = again
		}
	}
	r.enc.Encode(l)
	if len(ev) > 5 && (ev[:5] == "call:" || ev[:4] == "ret:") {
		r.w.Flush() // a dying engine process must not take the announcement of the call that killed it with it
	}
	r.lines++
	atomic.AddInt64(&r.events, 1)
}

func (r *Recorder) Project(te pt.TableEngine, t *pt.Table) PState {
	r.mu.Lock()
	defer r.mu.Unlock()
	return r.project(te, t)
}

func statFlags(g pt.TablePlayerGameStatistics) []string {
	fl := []string{}
	add := func(b bool, n string) {
		if b {
			fl = append(fl, n)
		}
	}
	add(g.IsVPIPChance, "vpipC")
	add(g.IsVPIP, "vpip")
	add(g.IsPFRChance, "pfrC")
	add(g.IsPFR, "pfr")
	add(g.IsATSChance, "atsC")
	add(g.IsATS, "ats")
	add(g.Is3BChance, "3bC")
	add(g.Is3B, "3b")
	add(g.IsFt3BChance, "ft3bC")
	add(g.IsFt3B, "ft3b")
	add(g.IsCheckRaiseChance, "crC")
	add(g.IsCheckRaise, "cr")
	add(g.IsCBetChance, "cbC")
	add(g.IsCBet, "cb")
	add(g.IsFtCBChance, "ftcbC")
	add(g.IsFtCB, "ftcb")
	add(g.ShowdownWinningChance, "sdC")
	add(g.IsShowdownWinning, "sd")
	return fl
}

func strs(s []string) []string {
	if s == nil {
		return []string{}
	}
	return append([]string{}, s...)
}

func (r *Recorder) projectHand(gs *pokerface.GameState) PHand {
	h := PHand{Gid: r.gid(gs.GameID), Ev: gs.Status.CurrentEvent, Round: gs.Status.Round, Cur: gs.Status.CurrentPlayer,
		Raiser: gs.Status.CurrentRaiser, Cw: gs.Status.CurrentWager, Prs: gs.Status.PreviousRaiseSize, Mb: gs.Status.MiniBet,
		Ante: gs.Meta.Ante, Bl: []int64{gs.Meta.Blind.Dealer, gs.Meta.Blind.SB, gs.Meta.Blind.BB}, Upd: r.upd(gs.UpdatedAt),
		Deck: len(gs.Meta.Deck), Burned: len(gs.Status.Burned), Board: len(gs.Status.Board), P: []PHandPlayer{}, Result: [][]int64{},
		HoleCnt: gs.Meta.HoleCardsCount}
	for _, p := range gs.Players {
		hp := PHandPlayer{Pos: strs(p.Positions), Bankroll: p.Bankroll, Init: p.InitialStackSize, Stack: p.StackSize, Wager: p.Wager,
			Pot: p.Pot, Fold: p.Fold, Acted: p.Acted, Did: p.DidAction, Allowed: strs(p.AllowedActions), Hole: len(p.HoleCards)}
		sort.Strings(hp.Allowed)
		if p.Combination != nil {
			hp.Combo = true
			hp.Power = p.Combination.Power
		}
		h.P = append(h.P, hp)
	}
	for i := range h.P {
		for j := range h.P {
			if h.P[j].Power < h.P[i].Power {
				seen := false
				for k := 0; k < j; k++ {
					if h.P[k].Power == h.P[j].Power {
						seen = true
					}
				}
				if !seen {
					h.P[i].Rank++
				}
			}
		}
		h.P[i].Power = h.P[i].Power % 1000000
	}
	if gs.Result != nil {
		for _, rp := range gs.Result.Players {
			h.Result = append(h.Result, []int64{int64(rp.Idx), rp.Final, rp.Changed})
		}
	}
	return h
}

func projSMState(m sm.SeatManager, n int) PSM {
	ps := PSM{Seat: []interface{}{}, Dealer: -1, SB: -1, BB: -1}
	if m == nil {
		return ps
	}
	ps.Dealer, ps.SB, ps.BB, ps.Inited = m.CurrentDealerSeatID(), m.CurrentSBSeatID(), m.CurrentBBSeatID(), m.IsInitPositions()
	seats := m.Seats()
	for i := 0; i < n; i++ {
		sp := seats[i]
		if sp == nil {
			ps.Seat = append(ps.Seat, []interface{}{"", false, false, false})
		} else {
			ps.Seat = append(ps.Seat, []interface{}{sp.ID, sp.IsIn, sp.IsBetweenDealerBB, sp.HasChips})
		}
	}
	for k := range seats {
		if k < 0 || k >= n {
			ps.Extra++
		}
	}
	return ps
}

func projGate(g ogm.OpenGameManager) PGate {
	pg := PGate{Parts: [][]interface{}{}}
	if g == nil {
		return pg
	}
	st := g.GetState()
	pg.Gc = st.GameCount
	ids := []string{}
	for id := range st.Participants {
		ids = append(ids, id)
	}
	sort.Strings(ids)
	for _, id := range ids {
		p := st.Participants[id]
		if p == nil {
			continue
		}
		pg.Parts = append(pg.Parts, []interface{}{p.ID, p.Index, p.IsReady})
	}
	return pg
}

func (r *Recorder) project(te pt.TableEngine, t *pt.Table) (ps PState) {
	ps = PState{Players: []PPlayer{}, SeatMap: []int{}, Gpi: []int{}, Blind: []int64{}, GBlind: []int64{}, LA: []PAction{},
		NextBB: []string{}, Hand: []PHand{}, SM: PSM{Seat: []interface{}{}}, Gate: PGate{Parts: [][]interface{}{}}, Status: "none"}
	defer func() {
		if rec := recover(); rec != nil {
			ps.Status = "projection-panic"
		}
	}()
	if t == nil && te != nil {
		t = te.GetTable()
	}
	if t == nil || t.State == nil {
		return ps
	}
	s := t.State
	ps.Tid = t.ID
	ps.Status, ps.Gc, ps.Start = string(s.Status), s.GameCount, s.StartAt != pt.UnsetValue
	ps.N, ps.MinP, ps.Rule, ps.Mode, ps.AT = t.Meta.TableMaxSeatCount, t.Meta.TableMinPlayerCount, t.Meta.Rule, t.Meta.Mode, t.Meta.ActionTime
	for _, p := range s.PlayerStates {
		g := p.GameStatistics
		ps.Players = append(ps.Players, PPlayer{ID: p.PlayerID, Seat: p.Seat, Bank: p.Bankroll, In: p.IsIn, Part: p.IsParticipated,
			Pos: strs(p.Positions), Stats: PStats{AT: g.ActionTimes, RT: g.RaiseTimes, CT: g.CallTimes, KT: g.CheckTimes, Fold: g.IsFold, FR: g.FoldRound, Flags: statFlags(g)}})
	}
	ps.SeatMap = append([]int{}, s.SeatMap...)
	ps.Gpi = append([]int{}, s.GamePlayerIndexes...)
	ps.Dealer, ps.SB, ps.BB = s.CurrentDealerSeat, s.CurrentSBSeat, s.CurrentBBSeat
	if b := s.BlindState; b != nil {
		ps.Blind = []int64{int64(b.Level), b.Ante, b.Dealer, b.SB, b.BB}
	}
	if b := s.GameBlindState; b != nil {
		ps.GBlind = []int64{int64(b.Level), b.Ante, b.Dealer, b.SB, b.BB}
	}
	ps.Deadline = s.CurrentActionEndAt
	if la := s.LastPlayerGameAction; la != nil {
		ps.LA = []PAction{{ID: la.PlayerID, Seat: la.Seat, Action: la.Action, Round: la.Round, Gid: r.gid(la.GameID), Gc: la.GameCount, Chips: la.Chips}}
	}
	ps.NextBB = strs(s.NextBBOrderPlayerIDs)
	if gs := s.GameState; gs != nil {
		ps.Hand = []PHand{r.projectHand(gs)}
	}
	ps.Serial = t.UpdateSerial
	if te = realEngine(te); te != nil {
		ps.SM = projSMState(pt.VerifSeatManager(te), ps.N)
		ps.Gate = projGate(pt.VerifOpenGameManager(te))
		ps.Released = pt.VerifIsReleased(te)
	}
	return ps
}

// realEngine unwraps the manager-routing wrapper (the verif accessors need the engine itself)
func realEngine(te pt.TableEngine) pt.TableEngine {
	if w, ok := te.(*mgrEngine); ok {
		if w.eng() == nil {
			return nil
		}
		return w.eng()
	}
	return te
}

var reSerial = regexp.MustCompile(`"update_serial":\d+,|,"update_at":\d+`)

// digest of the engine's own JSON rendering of the table, minus update_serial / update_at (C10, C13: "exactly as before")
func tableDigest(t *pt.Table) (d string) {
	defer func() {
		if r := recover(); r != nil {
			d = "panic"
		}
	}()
	js, err := t.GetJSON()
	if err != nil {
		return "err"
	}
	js = reSerial.ReplaceAllString(js, "")
	h := sha1.Sum([]byte(js))
	return hex.EncodeToString(h[:8])
}
