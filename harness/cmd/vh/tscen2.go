package main

import (
	"fmt"
	"math/rand"
)

type scenBuilder struct {
	r      *rand.Rand
	sc     *Scenario
	nextID int
	ids    []string
}

func newBuilder(seed int64, salt int64) *scenBuilder {
	r := rand.New(rand.NewSource(seed*104729 + salt))
	b := &scenBuilder{r: r, sc: &Scenario{Seed: seed, Rule: "default", MinPlayers: 2}}
	b.sc.Mode = []string{"ct", "ct", "cash", "mtt"}[r.Intn(4)]
	b.sc.ActionTime = []int{0, 7, 30}[r.Intn(3)]
	b.sc.Blind = []int64{1, 0, 0, 1, 2}
	b.sc.MinChip = []int64{1, 1, 5, 10}[r.Intn(4)]
	return b
}
func (b *scenBuilder) newID() string {
	b.nextID++
	id := fmt.Sprintf("p%d", b.nextID)
	b.ids = append(b.ids, id)
	return id
}
func (b *scenBuilder) anyID() string {
	if len(b.ids) == 0 {
		return "p1"
	}
	return b.ids[b.r.Intn(len(b.ids))]
}
func (b *scenBuilder) add(o Op)          { b.sc.Steps = append(b.sc.Steps, Step{Op: &o}) }
func (b *scenBuilder) hand(h *HandPlan)  { b.sc.Steps = append(b.sc.Steps, Step{Hand: h}) }
func (b *scenBuilder) chips() int64      { return []int64{0, 1, 2, 3, 5, 8, 13, 21, 40, 7}[b.r.Intn(10)] }
func (b *scenBuilder) seatPlayers(k int) {
	perm := b.r.Perm(b.sc.N)
	for i := 0; i < k && i < b.sc.N; i++ {
		id := b.newID()
		seat := perm[i]
		if b.r.Intn(4) == 0 {
			seat = -1
		}
		b.add(Op{Op: "reserve", ID: id, Seat: seat, Chips: b.chips()})
		b.add(Op{Op: "join", ID: id})
	}
}
func (b *scenBuilder) plan() *HandPlan {
	return &HandPlan{Policy: []string{"rand", "passive", "aggro", "foldy"}[b.r.Intn(4)], ShuffleAns: b.r.Intn(2) == 0}
}

// genMembers: membership operations, valid and invalid, at every table status (C03, C01 ledger, C05 flags).
func genMembers(seed int64, allow map[string]bool) *Scenario {
	b := newBuilder(seed, 1)
	r := b.r
	b.sc.N = 2 + r.Intn(9)
	if r.Intn(3) == 0 {
		b.sc.N = 2 + r.Intn(3)
	}
	n := b.sc.N
	memberOp := func() Op {
		badSeats := []int{n, n + 3, -2, -7}
		switch r.Intn(16) {
		case 0, 1:
			return Op{Op: "reserve", ID: b.newID(), Seat: r.Intn(n), Chips: b.chips()}
		case 2:
			return Op{Op: "reserve", ID: b.newID(), Seat: -1, Chips: b.chips()}
		case 3:
			return Op{Op: "reserve", ID: b.newID(), Seat: badSeats[r.Intn(len(badSeats))], Chips: b.chips()}
		case 4:
			return Op{Op: "reserve", ID: "@any", Seat: r.Intn(n+1) - 1, Chips: b.chips()} // re-buy of a seated player
		case 5:
			return Op{Op: "join", ID: []string{"@notin", "@any", "@unknown"}[r.Intn(3)]}
		case 6:
			return Op{Op: "redeem", ID: []string{"@any", "@busted", "@unknown"}[r.Intn(3)], Chips: b.chips()}
		case 7:
			return Op{Op: "leave", IDs: []string{"@out"}}
		case 8:
			return Op{Op: "leave", IDs: []string{"@unknown"}}
		case 9:
			return Op{Op: "leave", IDs: []string{"@out", "@unknown"}}
		case 10:
			if r.Intn(2) == 0 {
				// a batch at least as long as the player list may name somebody twice and still let another player stay
				return Op{Op: "leave", IDs: []string{"@out", "@out", "@out", "@out"}[:2+r.Intn(3)]}
			}
			return Op{Op: "leave", IDs: []string{"@out", "@out"}}
		case 11: // batch: fixed + random, maybe too many, maybe a duplicate seat / a seated id
			js := []JoinSpec{}
			k := 1 + r.Intn(3)
			for i := 0; i < k; i++ {
				seat := r.Intn(n+2) - 1
				id := b.newID()
				if r.Intn(6) == 0 {
					id = b.anyID()
				}
				js = append(js, JoinSpec{ID: id, Seat: seat, Chips: b.chips()})
			}
			if r.Intn(5) == 0 && len(js) > 1 {
				js[1].Seat = js[0].Seat
			}
			return Op{Op: "update", Joins: js}
		case 12: // batch leave only
			return Op{Op: "update", IDs: []string{"@out"}}
		case 13:
			if allow["kf-update-partial"] {
				return Op{Op: "update", IDs: []string{"@out"}, Joins: []JoinSpec{{ID: b.newID(), Seat: r.Intn(n + 1), Chips: b.chips()}, {ID: b.anyID(), Seat: -1, Chips: 3}}}
			}
			return Op{Op: "update", IDs: []string{"@out"}, Joins: []JoinSpec{{ID: b.newID(), Seat: -1, Chips: b.chips()}}}
		case 14:
			return Op{Op: "join", ID: "@notin"}
		default:
			return Op{Op: "reserve", ID: b.newID(), Seat: r.Intn(n), Chips: b.chips()}
		}
	}
	// before the first hand
	for i, k := 0, 3+r.Intn(10); i < k; i++ {
		b.add(memberOp())
	}
	// make sure a hand can be played: two joined players with chips
	g1, g2 := b.newID(), b.newID()
	b.add(Op{Op: "reserve", ID: g1, Seat: -1, Chips: 10})
	b.add(Op{Op: "reserve", ID: g2, Seat: -1, Chips: 12})
	for _, id := range b.ids {
		if r.Intn(5) != 0 || id == g1 || id == g2 {
			b.add(Op{Op: "join", ID: id})
		}
	}
	b.add(Op{Op: "start"})
	for h, hs := 0, 1+r.Intn(3); h < hs; h++ {
		hp := b.plan()
		phases := []string{"prefinish", "ready1", "blinds", "turn0", "turn2", "settled", "settled", "settled"}
		for i, k := 0, r.Intn(5); i < k; i++ {
			hp.Inj = append(hp.Inj, Inj{At: phases[r.Intn(len(phases))], Ops: []Op{memberOp()}})
		}
		b.hand(hp)
	}
	for i, k := 0, r.Intn(6); i < k; i++ {
		b.add(memberOp())
	}
	return b.sc
}

// genLife: control operations and timing of the open trigger (C07, C08, C12).
func genLife(seed int64, allow map[string]bool) *Scenario {
	b := newBuilder(seed, 2)
	r := b.r
	b.sc.N = 2 + r.Intn(5)
	if r.Intn(4) == 0 {
		b.sc.Blind = []int64{1, 1, 0, 1, 2}
	}
	if r.Intn(25) == 0 {
		b.sc.Blind = []int64{-1, 0, 0, 1, 2} // created on a break
	}
	k := 2 + r.Intn(min(b.sc.N-1, 3))
	b.seatPlayers(k)
	if k >= 3 && r.Intn(3) == 0 {
		b.sc.MinPlayers = 3 // the table minimum counts players with chips, the open-game gate counts seated-in players with chips
		if len(b.ids) < b.sc.N && r.Intn(2) == 0 {
			b.add(Op{Op: "reserve", ID: b.newID(), Seat: -1, Chips: 15}) // has chips, never sits in
		}
	}
	b.add(Op{Op: "start"})
	if r.Intn(8) == 0 {
		// the blind structure is not set yet when the first hand is due: tableGameOpen sleeps and retries with the
		// engine lock held; what lands during the sleep (no lock needed) decides what the retry may do
		if r.Intn(2) == 0 {
			// ... or the seat manager cannot place two players yet: the second player has bought in but sits in (and the
			// first adds chips) while the open attempt sleeps -- both calls take no engine lock
			b.sc.Steps = nil
			b.ids = nil
			b.nextID = 0
			p1, p2 := b.newID(), b.newID()
			b.add(Op{Op: "reserve", ID: p1, Seat: -1, Chips: 20 + b.chips()})
			b.add(Op{Op: "join", ID: p1})
			b.add(Op{Op: "reserve", ID: p2, Seat: -1, Chips: 20 + b.chips()})
			b.add(Op{Op: "start"})
			b.add(Op{Op: "setup", IDs: []string{p1, p2}})
			hp := b.plan()
			ops := []Op{{Op: "redeem", ID: p1, Chips: 1 + b.chips()}, {Op: "join", ID: p2}}
			if r.Intn(2) == 0 {
				ops = []Op{{Op: "join", ID: p2}, {Op: "redeem", ID: p2, Chips: 1 + b.chips()}, {Op: "blind", Blind: []int64{2, 0, 0, 2, 4}}}
			}
			hp.Inj = []Inj{{At: "g:open.retry", Ops: ops}}
			b.hand(hp)
			b.hand(b.plan())
			return b.sc
		}
		b.sc.Blind = []int64{0, 0, 0, 0, 0}
		set := Op{Op: "blind", Blind: []int64{1, 0, 0, 1, 2}}
		var ops []Op
		switch r.Intn(6) {
		case 0:
			ops = []Op{set}
		case 1:
			ops = []Op{{Op: "close"}, set}
		case 2:
			ops = []Op{{Op: "release"}, set}
		case 3:
			ops = []Op{set, {Op: "close"}}
		case 4:
			ops = []Op{{Op: "pause"}, set}
		default:
			ops = []Op{{Op: "blind", Blind: []int64{-1, 0, 0, 0, 0}}}
		}
		hp := b.plan()
		hp.Inj = []Inj{{At: "g:open.retry", Ops: ops}}
		b.hand(hp)
		b.hand(b.plan())
		return b.sc
	}
	newBlind := func() []int64 {
		if r.Intn(4) == 0 {
			return []int64{-1, 0, 0, 0, 0} // break
		}
		return []int64{int64(2 + r.Intn(4)), int64(r.Intn(2)), 0, int64(1 + r.Intn(2)), int64(3 + r.Intn(4))}
	}
	ended := false
	for h, hs := 0, 2+r.Intn(4); h < hs && !ended; h++ {
		hp := b.plan()
		phases := []string{"prefinish", "ready1", "ready2", "blinds", "turn0", "turn1", "turn3", "settled", "g:continue.reset", "g:continue.reset"}
		if r.Intn(6) == 0 {
			// the open trigger completes while the table is still publishing the last closed round of the running hand
			// (the hand wrapper already holds the closed hand)
			switch r.Intn(4) {
			case 0:
				hp.Inj = append(hp.Inj, Inj{At: "g:ugs.enter@closing", Ops: []Op{{Op: "pause"}}}) // the closed hand must still be settled
			case 1:
				hp.Inj = append(hp.Inj, Inj{At: "g:ugs.enter@closing", Ops: []Op{{Op: "close"}}})
				ended = true
			default:
				hp.Inj = append(hp.Inj, Inj{At: "g:ugs.enter@closing", Ops: []Op{{Op: "setup", IDs: []string{"*"}}, {Op: "finishall"}, {Op: "sleep", Amt: 30}}})
			}
		}
		if r.Intn(8) == 0 {
			// the competition's level timer fires inside the application's listener of the opened event
			hp.Inj = append(hp.Inj, Inj{At: "cb:opened", Ops: []Op{{Op: "blind", Blind: newBlind()}}})
		}
		for i, kk := 0, r.Intn(4); i < kk; i++ {
			at := phases[r.Intn(len(phases))]
			var ops []Op
			switch r.Intn(12) {
			case 0, 1, 2, 3:
				ops = []Op{{Op: "blind", Blind: newBlind()}}
			case 4:
				ops = []Op{{Op: "blind", Blind: newBlind()}, {Op: "blind", Blind: []int64{5, 0, 0, 2, 4}}}
			case 5:
				ops = []Op{{Op: "pause"}}
			case 6:
				ops = []Op{{Op: "close"}}
				ended = true
			case 7:
				ops = []Op{{Op: "release"}}
				ended = true
			case 8:
				id := b.newID()
				ops = []Op{{Op: "reserve", ID: id, Seat: -1, Chips: b.chips()}, {Op: "join", ID: id}}
			case 9:
				ops = []Op{{Op: "reserve", ID: "@busted", Seat: -1, Chips: b.chips()}}
			case 10:
				if r.Intn(2) == 0 && len(b.ids) < b.sc.N {
					// a player moved in by the competition layer (batch update), e.g. between the reset and the continue timer
					id := b.newID()
					ops = []Op{{Op: "update", Joins: []JoinSpec{{ID: id, Seat: -1, Chips: b.chips() + 5}}}, {Op: "join", ID: id}}
				} else {
					ops = []Op{{Op: "leave", IDs: []string{"@out"}}}
				}
			case 11:
				ops = []Op{{Op: "setup", IDs: []string{"*"}}} // an extra set-up of the next hand by the competition layer
				if at != "prefinish" && at != "settled" {
					// ... arriving while the first state of the freshly opened hand has not been published yet
					at = "g:ugs.enter"
					ops = []Op{{Op: "setup", IDs: []string{"*"}}, {Op: "finishall"}, {Op: "sleep", Amt: 30}}
				}
			}
			hp.Inj = append(hp.Inj, Inj{At: at, Ops: ops})
		}
		if b.sc.Mode == "mtt" && r.Intn(3) == 0 && len(b.ids) < b.sc.N {
			// MTT: the competition layer moves a player in with a batch update right after the hand has been reset
			id := b.newID()
			hp.Inj = append(hp.Inj, Inj{At: "g:continue.reset", Ops: []Op{{Op: "update", Joins: []JoinSpec{{ID: id, Seat: -1, Chips: 20}}}, {Op: "join", ID: id}}})
		}
		if r.Intn(10) == 0 {
			hp.WithholdFin = 1
		}
		if r.Intn(5) == 0 && !ended && len(b.ids) < b.sc.N {
			// the open trigger arrives while another request holds the engine lock, and a close / release / break lands
			// while it waits
			var then []Op
			switch r.Intn(5) {
			case 0:
				then = []Op{{Op: "finishall"}, {Op: "sleep", Amt: 20}, {Op: "close"}}
				ended = true
			case 1:
				then = []Op{{Op: "finishall"}, {Op: "sleep", Amt: 20}, {Op: "release"}}
				ended = true
			case 2:
				then = []Op{{Op: "finishall"}, {Op: "sleep", Amt: 20}, {Op: "blind", Blind: []int64{-1, 0, 0, 0, 0}}}
			default:
				// nothing interferes: the trigger simply has to wait for the lock, and the hand must open afterwards
				then = []Op{{Op: "finishall"}, {Op: "sleep", Amt: 20}}
			}
			hp.Inj = append(hp.Inj, Inj{At: "prefinish", Ops: []Op{{Op: "bgreserve", ID: b.newID(), Seat: -1, Chips: 9, Then: then}}})
		}
		b.hand(hp)
		if ended {
			// after a close/release between or during hands nothing may open any more: try to provoke it
			b.hand(b.plan())
		}
	}
	return b.sc
}

// genHand: who may act (C10), waiting for answers (C11), deadlines (C15), statistics (C14).
func genHand(seed int64, allow map[string]bool) *Scenario {
	b := newBuilder(seed, 3)
	r := b.r
	b.sc.N = 2 + r.Intn(9)
	ante := int64(r.Intn(2))
	switch r.Intn(6) {
	case 0:
		b.sc.Blind = []int64{1, ante, 2, 1, 2}
	case 1:
		b.sc.Blind = []int64{1, ante, 0, 0, 2}
	case 2:
		b.sc.Blind = []int64{1, ante, 1, 0, 2}
	default:
		b.sc.Blind = []int64{1, ante, 0, 1, 2}
	}
	if r.Intn(5) == 0 {
		b.sc.SlowAct = 15 + r.Intn(25)
	}
	early := ""
	if b.sc.N >= 4 && r.Intn(5) == 0 {
		// the FIRST player of the list buys in but never sits in, and walks away while a hand is running (he is in no hand:
		// everybody behind him moves up one place in the player list)
		early = b.newID()
		b.add(Op{Op: "reserve", ID: early, Seat: -1, Chips: 9})
	}
	k := 2 + r.Intn(min(b.sc.N-1-len(b.ids), 6))
	b.seatPlayers(k)
	// ... and the hand he walks away from is one of raises and re-raises (deep stacks, minimum raises): he leaves between the
	// 3-bet and the 4-bet
	raisy := early != "" && r.Intn(2) == 0
	if raisy {
		for _, id := range b.ids {
			if id != early {
				b.add(Op{Op: "reserve", ID: id, Seat: -1, Chips: 40})
			}
		}
	}
	if r.Intn(2) == 0 && len(b.ids) < b.sc.N { // a seated player who never joins (sitting out)
		b.add(Op{Op: "reserve", ID: b.newID(), Seat: -1, Chips: 9})
	}
	b.add(Op{Op: "start"})
	whos := []string{"cur", "other", "other", "out", "stranger"}
	kinds := []string{"fold", "check", "call", "bet", "raise", "allin", "pass", "ready", "pay"}
	for h, hs := 0, 2+r.Intn(3); h < hs; h++ {
		hp := b.plan()
		hp.DupAnswers = r.Intn(4) == 0
		phases := []string{"prefinish", "ready1", "ready2", "ready3", "ante", "blinds", "turn0", "turn1", "turn2", "turn3", "turn5", "turn8", "settled"}
		for i, kk := 0, 2+r.Intn(6); i < kk; i++ {
			at := phases[r.Intn(len(phases))]
			who := whos[r.Intn(len(whos))]
			kind := kinds[r.Intn(len(kinds))]
			o := Op{Op: "act", Who: who, Kind: kind, Amt: int64(1 + r.Intn(9))}
			if who == "cur" {
				// the mover's own wager actions are the betting line itself (policy); here only what must be refused:
				// collection answers, a pass, or a wager kind the hand does not offer him at this moment ("illegal")
				o.Kind = []string{"ready", "pay", "pass", "illegal", "illegal"}[r.Intn(5)]
			}
			if r.Intn(8) == 0 {
				o = Op{Op: "extend", ID: "@any", Amt: int64(1 + r.Intn(30))}
			}
			hp.Inj = append(hp.Inj, Inj{At: at, Ops: []Op{o}})
		}
		if r.Intn(6) == 0 {
			hp.WithholdAns = []string{"ready1", "ready2", "ante", "blinds", "ready3"}[r.Intn(5)]
			hp.WithholdMs = 250
		}
		if b.sc.ActionTime > 0 && r.Intn(6) == 0 {
			hp.ThinkMs, hp.ThinkTurn = 2300, r.Intn(3)
		}
		if early != "" && h == 0 && raisy {
			// open, 3-bet, everybody else calls, [he leaves], the opener 4-bets (policy "raisy", injection point "after3bet")
			hp.Policy = "raisy"
			hp.Inj = append(hp.Inj, Inj{At: "after3bet", Ops: []Op{{Op: "leave", IDs: []string{early}}}})
		} else if early != "" && h == 0 {
			hp.Inj = append(hp.Inj, Inj{At: []string{"turn0", "turn1", "blinds", "ready2"}[r.Intn(4)], Ops: []Op{{Op: "leave", IDs: []string{early}}}})
		}
		if r.Intn(4) == 0 {
			// answers that arrive after the hand has produced a collection request but before the updater has published
			// it (the producing goroutine is parked at game.queue): refused, or accepted AND counted
			switch r.Intn(3) {
			case 0:
				hp.Inj = append(hp.Inj, Inj{At: "g:game.queue:BlindsRequested", Ops: []Op{{Op: "act", Who: "bb", Kind: "pay", Amt: 2}}})
			case 1:
				hp.Inj = append(hp.Inj, Inj{At: "g:game.queue:BlindsRequested", Ops: []Op{{Op: "act", Who: "sb", Kind: "pay", Amt: 1}, {Op: "act", Who: "bb", Kind: "pay", Amt: 2}, {Op: "act", Who: "dealer", Kind: "pay", Amt: 2}}})
			default:
				hp.Inj = append(hp.Inj, Inj{At: "g:game.queue:AnteRequested", Ops: []Op{{Op: "act", Who: "bb", Kind: "pay", Amt: 1}, {Op: "act", Who: "dealer", Kind: "pay", Amt: 1}}})
			}
		}
		if r.Intn(3) == 0 {
			perm := r.Perm(10)
			hp.Strength = perm
		}
		b.hand(hp)
	}
	return b.sc
}

// genKF: scenarios that contain the trigger of exactly one recorded finding (quarantine pools).
func genKF(seed int64, allow map[string]bool) *Scenario {
	b := newBuilder(seed, 4)
	r := b.r
	b.sc.Mode = "ct"
	switch {
	case allow["kf-midhand-leave"]:
		b.sc.N = 3 + r.Intn(6)
		b.seatPlayers(3 + r.Intn(min(b.sc.N-2, 3)))
		b.add(Op{Op: "start"})
		hp := b.plan()
		hp.Inj = []Inj{{At: []string{"ready1", "blinds", "turn0", "turn1"}[r.Intn(4)], Ops: []Op{{Op: "leave", IDs: []string{"@part"}}}}}
		b.hand(hp)
		b.hand(b.plan())
	case allow["kf-lost-blind-update"]:
		b.sc.N = 2 + r.Intn(4)
		b.seatPlayers(2 + r.Intn(min(b.sc.N-1, 2)))
		b.add(Op{Op: "start"})
		b.hand(b.plan())
		hp := b.plan()
		hp.Inj = []Inj{{At: "g:open.cloned", Ops: []Op{{Op: "blind", Blind: []int64{4, 0, 0, 2, 4}}}}}
		b.hand(hp)
		b.hand(b.plan())
	case allow["kf-open-window"]:
		// a lock-free call lands between the clone and the swap of tableGameOpen: the swap overwrites it
		b.sc.N = 3 + r.Intn(4)
		for i := 0; i < 2; i++ {
			id := b.newID()
			b.add(Op{Op: "reserve", ID: id, Seat: -1, Chips: 30 + int64(r.Intn(20))})
			b.add(Op{Op: "join", ID: id})
		}
		late := b.newID()
		b.add(Op{Op: "reserve", ID: late, Seat: -1, Chips: 9})
		b.add(Op{Op: "start"})
		if r.Intn(2) == 0 {
			b.hand(b.plan())
		}
		hp := b.plan()
		var ops []Op
		switch seed % 4 {
		case 0:
			ops = []Op{{Op: "redeem", ID: "p1", Chips: 1 + b.chips()}}
		case 1:
			ops = []Op{{Op: "join", ID: late}}
			hp.Policy = "passive"
		case 2:
			ops = []Op{{Op: "close"}}
		default:
			ops = []Op{{Op: "release"}}
		}
		hp.Inj = []Inj{{At: "g:open.cloned", Ops: ops}}
		b.hand(hp)
		b.hand(b.plan())
	case allow["kf-update-partial"]:
		return genMembers(seed, allow)
	case allow["kf-waiting-newcomer"]:
		// heads-up, the big blind leaves, a newcomer sits between button and old big blind
		b.sc.N = 4 + r.Intn(5)
		b.add(Op{Op: "reserve", ID: b.newID(), Seat: 0, Chips: 20})
		b.add(Op{Op: "reserve", ID: b.newID(), Seat: 2, Chips: 20})
		b.add(Op{Op: "join", ID: "p1"})
		b.add(Op{Op: "join", ID: "p2"})
		b.add(Op{Op: "start"})
		hp := b.plan()
		hp.Policy = "passive"
		hp.Inj = []Inj{{At: "settled", Ops: []Op{{Op: "leave", IDs: []string{"@bb"}}, {Op: "reserve", ID: b.newID(), Seat: -3, Chips: 20}, {Op: "join", ID: "p3"}}}}
		b.hand(hp)
		b.hand(b.plan())
	}
	return b.sc
}

// genFault: the game backend fails at chosen calls (C13).
func genFault(seed int64, allow map[string]bool) *Scenario {
	b := newBuilder(seed, 5)
	r := b.r
	b.sc.N = 2 + r.Intn(6)
	b.sc.Blind = []int64{1, int64(r.Intn(2)), 0, 1, 2}
	b.seatPlayers(2 + r.Intn(min(b.sc.N-1, 3)))
	b.add(Op{Op: "start"})
	kinds := []string{"fold", "check", "call", "bet", "raise", "allin", "pass"}
	for h, hs := 0, 2+r.Intn(4); h < hs; h++ {
		hp := b.plan()
		hp.FailOrd = map[int]int{}
		hp.FailKind = map[string]int{}
		switch r.Intn(5) {
		case 4: // an outage that hits a player's action first and one of the engine's own steps later in the same hand
			hp.FailKind[kinds[r.Intn(4)]] = 1
			hp.FailKind["next"] = 1 + r.Intn(2)
		case 0: // one failing player action somewhere in the hand, possibly repeated
			hp.FailKind[kinds[r.Intn(len(kinds))]] = 1 + r.Intn(3)
		case 1: // several kinds
			for i := 0; i < 3; i++ {
				hp.FailKind[kinds[r.Intn(len(kinds))]] = 1 + r.Intn(2)
			}
		case 2: // by ordinal: any backend call of the hand (automatic steps included)
			hp.FailOrd[2+r.Intn(20)] = 1
		case 3: // an automatic step fails
			hp.FailKind[[]string{"readyall", "blinds", "next", "ante", "create"}[r.Intn(5)]] = 1
		}
		if r.Intn(2) == 0 {
			hp.Strength = r.Perm(10)
		}
		b.hand(hp)
	}
	return b.sc
}

// genBots: tables whose players are all bots (C18: bot tables play out).
func genBots(seed int64, allow map[string]bool) *Scenario {
	b := newBuilder(seed, 6)
	r := b.r
	b.sc.Mode = "ct"
	b.sc.N = 2 + r.Intn(8)
	b.sc.ActionTime = 0
	b.sc.Blind = []int64{1, int64(r.Intn(2)), 0, int64(r.Intn(2)), 2}
	k := 2 + r.Intn(min(b.sc.N-1, 6))
	perm := r.Perm(b.sc.N)
	for i := 0; i < k; i++ {
		b.add(Op{Op: "reserve", ID: b.newID(), Seat: perm[i], Chips: []int64{1, 2, 3, 5, 9, 14, 30, 60}[r.Intn(8)]})
	}
	b.add(Op{Op: "sleep", Amt: 250}) // the bots ask to sit in by themselves (100 ms)
	b.add(Op{Op: "start"})
	for h, hs := 0, 3+r.Intn(5); h < hs; h++ {
		b.hand(b.plan())
	}
	return b.sc
}

// genTimeout: one asked player never answers; after the hand's 17 s response time-out the hand moves on by itself (C11).
func genTimeout(seed int64, allow map[string]bool) *Scenario {
	b := newBuilder(seed, 7)
	r := b.r
	b.sc.Mode = "ct"
	b.sc.N = 2 + r.Intn(5)
	b.sc.Blind = []int64{1, int64(seed % 2), 0, 1, 2}
	b.seatPlayers(2 + r.Intn(min(b.sc.N-1, 3)))
	if seed%2 == 0 && len(b.ids)+2 <= b.sc.N {
		// two more players buy in and leave the sitting in to the table's own 17 s timer; one of them goes away before it fires
		w1, w2 := b.newID(), b.newID()
		b.add(Op{Op: "reserve", ID: w1, Seat: -1, Chips: 12})
		b.add(Op{Op: "reserve", ID: w2, Seat: -1, Chips: 14})
		b.add(Op{Op: "leave", IDs: []string{w1}})
	}
	b.add(Op{Op: "start"})
	hp := b.plan()
	phases := []string{"blinds", "ready1", "ready2", "blinds", "ready3"}
	if b.sc.Blind[1] > 0 {
		phases = append(phases, "ante", "ante")
	}
	hp.WithholdAns = phases[int(seed)%len(phases)]
	hp.WithholdMs = 18600 // the group's own 17 s time-out, with room for a loaded machine
	b.hand(hp)
	return b.sc
}
