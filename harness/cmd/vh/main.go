// vh: verification harness for weedbox/pokertable (built with -tags verif).
// Each sub-command drives one component of the real code and writes ndjson
// traces that the TLA+ trace specifications under /verif/spec consume.
package main

import (
	"strings"
	"runtime"
	"fmt"
	"os"
)

var commands = map[string]func(args []string) int{}

func main() {
	if len(os.Args) < 2 {
		fmt.Fprintln(os.Stderr, "usage: vh <command> [flags]")
		for k := range commands {
			fmt.Fprintln(os.Stderr, "  ", k)
		}
		os.Exit(2)
	}
	fn, ok := commands[os.Args[1]]
	if !ok {
		fmt.Fprintln(os.Stderr, "unknown command", os.Args[1])
		os.Exit(2)
	}
	os.Exit(fn(os.Args[2:]))
}

// hangSignature looks at the stacks of all goroutines of a process that stopped making progress.  The one dead-lock the
// pinned engine is known for (recorded finding): syncsaga's ReadyGroup takes its read lock twice in validate -> defValidate;
// a writer (Add / updateState) arriving in between blocks the second RLock for ever, and whoever holds the engine lock
// while calling into the group (batchAddPlayers -> playersAutoIn) keeps it.
func hangSignature() string {
	buf := make([]byte, 4<<20)
	n := runtime.Stack(buf, true)
	st := string(buf[:n])
	if strings.Contains(st, "syncsaga.(*ReadyGroup).defValidate") && strings.Contains(st, "sync.(*RWMutex).RLock") {
		return "syncsaga-recursive-rlock"
	}
	// ... or a sit-in whose signal was on its way into the group when it was re-armed: Ready() checked the channel, Stop()
	// cleared it, the send blocks on a nil channel for ever
	if strings.Contains(st, "chan send (nil chan)") && strings.Contains(st, "syncsaga.(*ReadyGroup).Ready") {
		return "ready-on-nil-channel"
	}
	return ""
}
