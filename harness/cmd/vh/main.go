// vh: verification harness for weedbox/pokertable (built with -tags verif).
// Each sub-command drives one component of the real code and writes ndjson
// traces that the TLA+ trace specifications under /verif/spec consume.
package main

import (
	"fmt"
	"os"
)

var commands = map[string]func(args []string) int{}

func main() {
	if len(os.Args) < 2 {
		fmt.Fprintln(os.Stderr, "usage: vh <command> [flags]")
		for k := range commands {
			fmt.Fprintln(os.Stderr, "  ", k)
		}
		os.Exit(2)
	}
	fn, ok := commands[os.Args[1]]
	if !ok {
		fmt.Fprintln(os.Stderr, "unknown command", os.Args[1])
		os.Exit(2)
	}
	os.Exit(fn(os.Args[2:]))
}
