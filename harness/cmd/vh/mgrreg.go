package main

// vh mgrreg: the manager's registry under calls that arrive while another table's create / close is in progress (C17).
// A handful of table ids; creates, closes, releases, forwarded calls (pause, reservation, look-up).  Some calls are made
// from INSIDE another table's create / close callback (the engine fires the caller's callbacks synchronously, i.e. between
// the manager's look-up and its registry change), or by another goroutine while that callback is held.  Every call is
// bracketed by a begin and an end line (sequence numbers under one mutex); ManagerTrace.tla replays them.

import (
	"bufio"
	"encoding/json"
	"flag"
	"fmt"
	"math/rand"
	"os"
	"sort"
	"sync"
	"syscall"

	pt "github.com/weedbox/pokertable"
)

func init() { commands["mgrreg"] = cmdMgrReg }

type mgrLine struct {
	Tr      int      `json:"tr"`
	N       int      `json:"n"`
	Ev      string   `json:"ev"` // begin | end | probe
	Op      string   `json:"op"`
	ID      string   `json:"id"`
	Res     string   `json:"res"`
	Call    int      `json:"call"`
	Eng     int      `json:"eng"`
	Pid     string   `json:"pid"`
	Players []string `json:"players"`
	Note    string   `json:"note"`
}

type mgrOp struct {
	op, id string
}

func cmdMgrReg(args []string) int {
	fs := flag.NewFlagSet("mgrreg", flag.ExitOnError)
	from := fs.Int64("from", 1, "first seed")
	count := fs.Int("count", 50, "scenarios")
	out := fs.String("out", "", "output ndjson")
	fs.Parse(args)
	f, err := os.Create(*out)
	if err != nil {
		fmt.Fprintln(os.Stderr, err)
		return 2
	}
	w := bufio.NewWriterSize(f, 1<<20)
	enc := json.NewEncoder(w)
	realOut, _ := syscall.Dup(1)
	null, _ := os.OpenFile(os.DevNull, os.O_WRONLY, 0)
	syscall.Dup2(int(null.Fd()), 1)
	lines, nested := 0, 0
	for i := 0; i < *count; i++ {
		seed := *from + int64(i)
		r := rand.New(rand.NewSource(seed*977 + 5))
		m := pt.NewManager()
		var mu sync.Mutex // orders the lines
		seq, calls, nplayer := 0, 0, 0
		engTok := map[pt.TableEngine]int{}
		emit := func(l mgrLine) {
			l.Tr = int(seed)
			seq++
			l.N = seq
			if l.Players == nil {
				l.Players = []string{}
			}
			enc.Encode(l)
			lines++
		}
		tok := func(te pt.TableEngine) int {
			if te == nil {
				return 0
			}
			if v, ok := engTok[te]; ok {
				return v
			}
			engTok[te] = len(engTok) + 1
			return engTok[te]
		}
		ids := []string{"t0", "t1", "t2", "t3"}
		// what the driver believes is registered / being changed (to keep two registry changes of one id apart, and to
		// never re-use an id while its close is in progress)
		busy := map[string]bool{}
		plans := map[string][]mgrOp{} // id -> calls to make from inside its next create / close callback
		var do func(o mgrOp, note string)
		runPlan := func(id string) {
			mu.Lock()
			p := plans[id]
			delete(plans, id)
			mu.Unlock()
			if len(p) == 0 {
				return
			}
			nested++
			if r.Intn(2) == 0 {
				for _, o := range p {
					do(o, "nested in "+id)
				}
			} else {
				// another goroutine makes the calls while this callback is held
				done := make(chan struct{})
				go func() {
					for _, o := range p {
						do(o, "concurrent with "+id)
					}
					close(done)
				}()
				<-done
			}
		}
		do = func(o mgrOp, note string) {
			mu.Lock()
			calls++
			c := calls
			pid := ""
			if o.op == "reserve" {
				nplayer++
				pid = fmt.Sprintf("%s-p%d", o.id, nplayer)
			}
			emit(mgrLine{Ev: "begin", Op: o.op, ID: o.id, Call: c, Pid: pid, Note: note})
			mu.Unlock()
			res, eng := "ok", 0
			switch o.op {
			case "create":
				id := o.id
				cbs := pt.NewTableEngineCallbacks()
				cbs.OnTableUpdated = func(t *pt.Table) {
					if t != nil && (t.State.Status == pt.TableStateStatus_TableCreated || t.State.Status == pt.TableStateStatus_TableClosed) {
						runPlan(id)
					}
				}
				_, err := m.CreateTable(&pt.TableEngineOptions{GameContinueInterval: 1, OpenGameTimeout: 2}, cbs, pt.TableSetting{TableID: o.id,
					Meta: pt.TableMeta{CompetitionID: "c", Rule: "default", Mode: "ct", MaxDuration: 1000000, TableMaxSeatCount: 9, TableMinPlayerCount: 2, MinChipUnit: 1, ActionTime: 10},
					Blind: pt.TableBlindState{Level: 1, SB: 1, BB: 2}})
				res = errNameT(err)
				if err == nil {
					if te, e2 := m.GetTableEngine(o.id); e2 == nil {
						mu.Lock()
						eng = tok(te)
						mu.Unlock()
					}
				}
			case "close":
				res = errNameT(m.CloseTable(o.id))
			case "release":
				res = errNameT(m.ReleaseTable(o.id))
			case "pause":
				res = errNameT(m.PauseTable(o.id))
			case "reserve":
				res = errNameT(m.PlayerReserve(o.id, pt.JoinPlayer{PlayerID: pid, RedeemChips: 10, Seat: -1}))
			case "get":
				te, err := m.GetTableEngine(o.id)
				res = errNameT(err)
				mu.Lock()
				eng = tok(te)
				mu.Unlock()
			}
			mu.Lock()
			emit(mgrLine{Ev: "end", Op: o.op, ID: o.id, Res: res, Call: c, Eng: eng, Pid: pid, Note: note})
			mu.Unlock()
		}
		randOp := func(exclude string) mgrOp {
			for {
				id := ids[r.Intn(len(ids))]
				if id == exclude || busy[id] {
					continue
				}
				return mgrOp{op: []string{"create", "close", "release", "pause", "reserve", "get", "create", "close"}[r.Intn(8)], id: id}
			}
		}
		steps := 8 + r.Intn(14)
		for s := 0; s < steps; s++ {
			o := randOp("")
			if (o.op == "create" || o.op == "close") && r.Intn(2) == 0 {
				// calls on OTHER tables while this one is between look-up and registry change
				busy[o.id] = true
				k := 1 + r.Intn(2)
				p := []mgrOp{}
				for j := 0; j < k; j++ {
					q := randOp(o.id)
					if q.op == "create" || q.op == "close" || q.op == "release" {
						busy[q.id] = true
					}
					p = append(p, q)
				}
				mu.Lock()
				plans[o.id] = p
				mu.Unlock()
			}
			do(o, "")
			mu.Lock()
			delete(plans, o.id) // (a close of an unknown table runs no callback)
			mu.Unlock()
			for k := range busy {
				delete(busy, k)
			}
		}
		// every id: is it there, which engine, who sits there
		for _, id := range ids {
			te, err := m.GetTableEngine(id)
			l := mgrLine{Ev: "probe", Op: "get", ID: id, Res: errNameT(err), Eng: tok(te)}
			if err == nil && te.GetTable() != nil {
				for _, p := range te.GetTable().State.PlayerStates {
					l.Players = append(l.Players, p.PlayerID)
				}
				sort.Strings(l.Players)
			}
			mu.Lock()
			emit(l)
			mu.Unlock()
		}
		w.Flush()
	}
	w.Flush()
	f.Close()
	syscall.Dup2(realOut, 1)
	fmt.Fprintf(os.NewFile(uintptr(realOut), "stdout"), "{\"scenarios\":%d,\"lines\":%d,\"nested\":%d}\n", *count, lines, nested)
	return 0
}
